//go:build verif

package main

import (
	"fmt"
	"image"
	"strings"

	"github.com/makiuchi-d/gozxing"
	"github.com/makiuchi-d/gozxing/aztec"
	azdec "github.com/makiuchi-d/gozxing/aztec/decoder"
	azdet "github.com/makiuchi-d/gozxing/aztec/detector"

	"verifharness/fw"
	"verifharness/ref/azref"
)

// C11: Aztec symbols of every size, built by the independent reference encoder
// azref (ISO/IEC 24778), must be located and decoded to exactly their text.
// Observed at three depths: HighLevelDecode(bits), Decoder.Decode(matrix),
// AztecReader.Decode(image).

func init() {
	fw.Register("C11", c11)
	fw.RegisterSelfTest("azref-anchors", azrefSelfTest)
}

// ---------------------------------------------------------------- anchors

func azBitsOf(s string) []bool {
	var out []bool
	for _, c := range s {
		switch c {
		case 'X', '1':
			out = append(out, true)
		case '.', '0':
			out = append(out, false)
		}
	}
	return out
}

func azBitsEq(a, b []bool) bool {
	if len(a) != len(b) {
		return false
	}
	for i := range a {
		if a[i] != b[i] {
			return false
		}
	}
	return true
}

func azrefSelfTest() error {
	specs := azref.AllSpecs()
	if len(specs) != 36 {
		return fmt.Errorf("AllSpecs: %d", len(specs))
	}
	// ISO/IEC 24778 Table 1: symbol sizes
	sizes := []int{15, 19, 23, 27,
		19, 23, 27, 31, 37, 41, 45, 49, 53, 57, 61, 67, 71, 75, 79, 83,
		87, 91, 95, 101, 105, 109, 113, 117, 121, 125, 131, 135, 139, 143, 147, 151}
	for i, s := range specs {
		if s.Size() != sizes[i] {
			return fmt.Errorf("%+v: size %d, standard %d", s, s.Size(), sizes[i])
		}
	}
	// total bits / codeword size / codeword count
	for _, c := range []struct {
		s           azref.Spec
		bits, ws, n int
	}{
		{azref.Spec{Compact: true, Layers: 1}, 104, 6, 17},
		{azref.Spec{Compact: true, Layers: 4}, 608, 8, 76},
		{azref.Spec{Layers: 1}, 128, 6, 21},
		{azref.Spec{Layers: 8}, 1920, 8, 240},
		{azref.Spec{Layers: 9}, 2304, 10, 230},
		{azref.Spec{Layers: 22}, 10208, 10, 1020},
		{azref.Spec{Layers: 23}, 11040, 12, 920},
		{azref.Spec{Layers: 32}, 19968, 12, 1664},
	} {
		if c.s.TotalBits() != c.bits || c.s.WordSize() != c.ws || c.s.TotalWords() != c.n {
			return fmt.Errorf("%+v: bits %d ws %d words %d, standard %d %d %d", c.s, c.s.TotalBits(), c.s.WordSize(), c.s.TotalWords(), c.bits, c.ws, c.n)
		}
	}
	// published mode-message vectors
	if !azBitsEq(azref.ModeMessage(azref.Spec{Compact: true, Layers: 2}, 29), azBitsOf(".X .XXX.. ...X XX.. ..X. XX.. XX.X")) {
		return fmt.Errorf("mode message compact 2 layers / 29 data words")
	}
	if !azBitsEq(azref.ModeMessage(azref.Spec{Compact: true, Layers: 4}, 64), azBitsOf("XX XXXXXX .X.. ...X ..XX .X.. XX..")) {
		return fmt.Errorf("mode message compact 4 layers / 64 data words")
	}
	if len(azref.ModeMessage(azref.Spec{Layers: 32}, 1000)) != 40 {
		return fmt.Errorf("full mode message length")
	}
	// published stuffing vectors
	if !azBitsEq(azref.Stuff(azBitsOf(".X.X. ..... .X.X"), 5), azBitsOf(".X.X. ....X ..X.X")) ||
		!azBitsEq(azref.Stuff(azBitsOf("XX. ... ... ..X XXX .X. .."), 3), azBitsOf("XX. ..X ..X ..X ..X .XX XX. .X. ..X")) {
		return fmt.Errorf("stuffing vectors")
	}
	// published high-level vectors
	if !azBitsEq(azref.EncodeText([]byte("Lorem ipsum.")), azBitsOf(".XX.X XXX.. X.... X..XX ..XX. .XXX. ....X .X.X. X...X X.X.. X.XX. .XXX. ..... X..XX")) {
		return fmt.Errorf("EncodeText(Lorem ipsum.)")
	}
	e := azref.NewEncoder() // "Code 2D!" as C L/L o d e SP D/L 2 U/S D P/S !
	e.Char(4)
	e.Latch(azref.Lower)
	e.Char(16)
	e.Char(5)
	e.Char(6)
	e.Char(1)
	e.Latch(azref.Digit)
	e.Char(4)
	e.ShiftUpper(5)
	e.ShiftPunct(6)
	if string(e.Text()) != "Code 2D!" || !azBitsEq(e.Bits(), azBitsOf("00100 11100 10000 00101 00110 00001 11110 0100 1111 00101 0000 00110")) {
		return fmt.Errorf("token vector 'Code 2D!'")
	}
	e = azref.NewEncoder()
	e.Latch(azref.Mixed)
	e.BinaryShift(make([]byte, 33))
	if !azBitsEq(e.Bits()[:26], azBitsOf("11101 11111 00000 00000000010")) || e.Len() != 26+33*8 {
		return fmt.Errorf("long-form B/S vector")
	}
	return nil
}

// ---------------------------------------------------------------- helpers

// azLatin1 is the string the library is expected to return for the byte text:
// every byte is an ISO-8859-1 code point (no ECI is ever emitted by azref).
func azLatin1(text []byte) string {
	rs := make([]rune, len(text))
	for i, b := range text {
		rs[i] = rune(b)
	}
	return string(rs)
}

func azSpecName(s azref.Spec) string {
	if s.Compact {
		return fmt.Sprintf("C%d", s.Layers)
	}
	return fmt.Sprintf("F%02d", s.Layers)
}

func azKindOf(s azref.Spec) string {
	if s.Compact {
		return "compact"
	}
	return "full"
}

func azBitMatrix(m [][]bool) *gozxing.BitMatrix {
	bm, _ := gozxing.NewBitMatrix(len(m[0]), len(m))
	for y := range m {
		for x, v := range m[y] {
			if v {
				bm.Set(x, y)
			}
		}
	}
	return bm
}

// azRender paints the matrix at scale px/module with a white quiet zone of
// quiet modules and rotates the pixels by rot*90 degrees clockwise (exactly).
func azRender(m [][]bool, scale, quiet, rot int) *image.Gray {
	n := len(m)
	side := (n + 2*quiet) * scale
	img := image.NewGray(image.Rect(0, 0, side, side))
	for i := range img.Pix {
		img.Pix[i] = 0xFF
	}
	for y := 0; y < n; y++ {
		for x := 0; x < n; x++ {
			if !m[y][x] {
				continue
			}
			for dy := 0; dy < scale; dy++ {
				row := ((y+quiet)*scale + dy) * img.Stride
				for dx := 0; dx < scale; dx++ {
					img.Pix[row+(x+quiet)*scale+dx] = 0
				}
			}
		}
	}
	for k := 0; k < rot%4; k++ {
		dst := image.NewGray(image.Rect(0, 0, side, side))
		for y := 0; y < side; y++ {
			for x := 0; x < side; x++ {
				// clockwise quarter turn: source (x, y) lands at (side-1-y, x)
				dst.Pix[x*dst.Stride+(side-1-y)] = img.Pix[y*img.Stride+x]
			}
		}
		img = dst
	}
	return img
}

func azReadImage(img *image.Gray) (*gozxing.Result, error) {
	bmp, err := gozxing.NewBinaryBitmapFromImage(img)
	if err != nil {
		return nil, err
	}
	return aztec.NewAztecReader().Decode(bmp, nil)
}

func azErrKind(err error) string {
	switch err.(type) {
	case gozxing.NotFoundException:
		return "notfound"
	case gozxing.FormatException:
		return "format"
	case gozxing.ChecksumException:
		return "checksum"
	}
	return "other"
}

// azInnermost strips the repeated "NotFoundException: " wrapping of an error text.
func azInnermost(err error) string {
	t := fmt.Sprintf("%v", err) // %v prints the wrapped chain, Error() only the outermost name
	for strings.HasPrefix(t, "NotFoundException: NotFoundException: ") {
		t = t[len("NotFoundException: "):]
	}
	return t
}

func azDecodeMatrix(m [][]bool, sym *azref.Symbol, withPoints bool) (string, error) {
	var pts []gozxing.ResultPoint
	if withPoints {
		n := float64(len(m))
		pts = []gozxing.ResultPoint{gozxing.NewResultPoint(n, 0), gozxing.NewResultPoint(n, n), gozxing.NewResultPoint(0, n), gozxing.NewResultPoint(0, 0)}
	}
	res, err := azdec.NewDecoder().Decode(azdet.NewAztecDetectorResult(azBitMatrix(m), pts, sym.Spec.Compact, sym.DataWords, sym.Spec.Layers))
	if err != nil {
		return "", err
	}
	return res.GetText(), nil
}

// azTokKind maps one trace entry of azref to the token class it exercises.
func azTokKind(tr string) string {
	if i := strings.Index(tr, "'"); i >= 0 {
		k := strings.TrimSpace(tr[:i])
		body := tr[i:]
		pair := body == "'. '" || body == "', '" || body == "': '" || body == `'\x0d\x0a'`
		switch {
		case strings.HasSuffix(k, ":"):
			k += "char"
			if pair {
				k += "-pair"
			}
		case pair:
			k += "-pair"
		}
		return k
	}
	if i := strings.Index(tr, " n="); i >= 0 {
		return strings.Replace(tr[:i], " ", "-", -1)
	}
	return tr
}

var azTokenKinds = []string{
	"U:char", "L:char", "M:char", "P:char", "P:char-pair", "D:char",
	"U:L/L", "U:M/L", "U:D/L", "L:M/L", "L:D/L", "M:L/L", "M:U/L", "M:P/L", "P:U/L", "D:U/L",
	"U:P/S", "L:P/S", "M:P/S", "D:P/S", "U:P/S-pair", "L:P/S-pair", "M:P/S-pair", "D:P/S-pair",
	"L:U/S", "D:U/S",
	"U:B/S-short", "L:B/S-short", "M:B/S-short", "U:B/S-long", "L:B/S-long", "M:B/S-long",
}

func azTallyTrace(r *fw.Rec, trace []string) {
	cnt := map[string]int64{}
	for _, t := range trace {
		cnt[azTokKind(t)]++
		if i := strings.Index(t, " n="); i >= 0 {
			n := 0
			fmt.Sscanf(t[i+3:], "%d", &n)
			r.Max("max_binary_shift_bytes", int64(n))
		}
	}
	for _, k := range azTokenKinds { // fixed order, and only the declared classes
		if cnt[k] > 0 {
			r.TallyN("tok_"+k, cnt[k])
		}
	}
}

func azTraceHead(trace []string, n int) []string {
	if len(trace) > n {
		return append(append([]string{}, trace[:n]...), fmt.Sprintf("... (%d tokens)", len(trace)))
	}
	return trace
}

// ---------------------------------------------------------------- level 1: high-level decode

var azHLMaxBits = []int{5, 9, 14, 30, 60, 100, 240, 400, 1000, 3000, 8000, 18000}

func c11HighLevel(r *fw.Rec, streams int, sample bool) {
	rng := r.Rng
	sampled := false
	for i := 0; i < streams; i++ {
		maxBits := azHLMaxBits[rng.Intn(len(azHLMaxBits))]
		if rng.Intn(4) == 0 {
			maxBits = 5 + rng.Intn(18000-4)
		}
		bits, text, trace := azref.RandomTokensTraced(rng, maxBits)
		want := azLatin1(text)
		got, err := azdec.NewDecoder().HighLevelDecode(bits)
		r.Evals(1)
		info := map[string]interface{}{"stream": i, "max_bits": maxBits, "bits": len(bits), "tokens": azTraceHead(trace, 60), "text": trunc(want, 300)}
		if len(bits) <= 1500 {
			info["bit_string"] = boolsToStr(bits)
		}
		if err != nil {
			r.Violation("model-mismatch", "aztec.highlevel:error", fmt.Sprintf("HighLevelDecode failed on a valid %d-bit token stream (%d tokens): %v", len(bits), len(trace), err), info)
			return
		}
		if got != want {
			p := 0
			for p < len(got) && p < len(want) && got[p] == want[p] {
				p++
			}
			info["got"] = trunc(got, 300)
			r.Violation("model-mismatch", "aztec.highlevel:other-text", fmt.Sprintf("HighLevelDecode of a valid %d-bit token stream returned other text: first difference at byte %d (got %d bytes, standard %d bytes): got %q, standard %q", len(bits), p, len(got), len(want), trunc(got[p:], 40), trunc(want[p:], 40)), info)
			return
		}
		r.Tally("highlevel_streams_equal")
		r.TallyN("highlevel_text_bytes", int64(len(text)))
		r.Max("highlevel_max_stream_bits", int64(len(bits)))
		switch {
		case len(bits) <= 30:
			r.Tally("highlevel_streams_le_30_bits")
		case len(bits) <= 1000:
			r.Tally("highlevel_streams_31_1000_bits")
		default:
			r.Tally("highlevel_streams_gt_1000_bits")
		}
		azTallyTrace(r, trace)
		r.NontrivialH(hash64s(boolsToStr(bits)))
		if sample && !sampled && len(trace) >= 8 && len(trace) <= 16 {
			sampled = true
			r.Sample(map[string]interface{}{"kind": "high-level token stream", "tokens": trace, "bits": boolsToStr(bits), "text": want})
		}
	}
}

// ---------------------------------------------------------------- symbols

var azCheckModes = []string{"minimal-3-check-words", "standard-23pct-plus-3", "generous-half-or-more", "tiny-message", "random-fill"}

type azSym struct {
	sym   *azref.Symbol
	text  []byte
	want  string
	trace []string
	mode  string
	bits  int
}

// azMakeSymbol draws a token stream that fits spec s; mode steers how many of
// the symbol's codewords are left over as Reed-Solomon check words.
func azMakeSymbol(rng *fw.Rand, s azref.Spec, mode int) *azSym {
	T := s.TotalWords()
	ws := s.WordSize()
	maxD := T - 3
	if maxD > s.MaxDataWords() {
		maxD = s.MaxDataWords()
	}
	var D int
	switch mode {
	case 0:
		D = maxD
	case 1:
		D = T - (23*T+99)/100 - 3
	case 2:
		D = 1 + rng.Intn(maxInt(1, T/2))
	case 3:
		D = 1 + rng.Intn(3)
	default:
		D = 1 + rng.Intn(maxD)
	}
	if D > maxD {
		D = maxD
	}
	if D < 1 {
		D = 1
	}
	if mode == 3 && rng.Intn(4) == 0 {
		// the empty message: no token at all, the one data codeword the mode message must count is
		// padding (ws-1 one bits, completed and closed by the stuffing rule)
		pad := make([]bool, ws-1)
		for i := range pad {
			pad[i] = true
		}
		if sym, ok := azref.Build(s, pad, 3); ok && sym.DataWords == 1 {
			return &azSym{sym: sym, text: nil, want: "", trace: []string{"(empty message)"}, mode: "empty-message", bits: 0}
		}
	}
	maxBits := D * ws
	draws := 1
	if mode == 0 {
		draws = 5 // RandomTokens aims short half of the time: keep the fullest of a few draws
	}
	var best *azSym
	for d := 0; d < draws; d++ {
		mb := maxBits
		for try := 0; try < 14; try++ {
			bits, text, trace := azref.RandomTokensTraced(rng, mb)
			sym, ok := azref.Build(s, bits, 3)
			if ok && sym.DataWords <= maxD {
				if best == nil || sym.DataWords > best.sym.DataWords {
					best = &azSym{sym: sym, text: text, want: azLatin1(text), trace: trace, mode: azCheckModes[mode], bits: len(bits)}
				}
				break
			}
			mb = mb*97/100 - 1 // stuffing overflowed the target: aim lower
			if mb < 5 {
				mb = 5
			}
		}
	}
	return best
}

func (a *azSym) info() map[string]interface{} {
	s := a.sym.Spec
	return map[string]interface{}{
		"spec": azSpecName(s), "compact": s.Compact, "layers": s.Layers, "size": s.Size(), "word_size": s.WordSize(),
		"data_words": a.sym.DataWords, "check_words": a.sym.CheckWords(), "max_correctable": a.sym.MaxCorrectable(),
		"fill_mode": a.mode, "stream_bits": a.bits, "text": trunc(a.want, 200), "tokens": azTraceHead(a.trace, 40),
	}
}

type azDamage struct {
	k      int
	kName  string // k1 | kmax | krandom
	pos    string // random | first | last
	val    string // random | zeros | ones | mixed
	idx    []int
	vals   []int
	matrix [][]bool
}

func (d *azDamage) String() string {
	return fmt.Sprintf("%d damaged codewords (%s, positions %s, values %s)", d.k, d.kName, d.pos, d.val)
}

func azMakeDamage(rng *fw.Rand, a *azSym, kName, pos, val string) *azDamage {
	sym := a.sym
	T := len(sym.Words)
	maxK := sym.MaxCorrectable()
	k := 1
	switch kName {
	case "kmax":
		k = maxK
	case "krandom":
		k = 1 + rng.Intn(maxK)
	}
	var idx []int
	switch pos {
	case "first":
		for i := 0; i < k; i++ {
			idx = append(idx, i)
		}
	case "last":
		for i := 0; i < k; i++ {
			idx = append(idx, T-1-i)
		}
	case "data":
		if k > sym.DataWords {
			k = sym.DataWords
		}
		idx = rng.Perm(sym.DataWords)[:k]
	default:
		idx = rng.Perm(T)[:k]
	}
	mask := 1<<uint(sym.Spec.WordSize()) - 1
	vals := make([]int, k)
	for i := range vals {
		v := val
		if v == "mixed" {
			v = []string{"random", "zeros", "ones"}[rng.Intn(3)]
		}
		if v == "blots" {
			v = []string{"zeros", "ones"}[rng.Intn(2)]
		}
		switch v {
		case "zeros":
			vals[i] = 0
		case "ones":
			vals[i] = mask
		default:
			// any other value of the word size
			vals[i] = (sym.Words[idx[i]] + 1 + rng.Intn(mask)) & mask
		}
	}
	return &azDamage{k: k, kName: kName, pos: pos, val: val, idx: idx, vals: vals, matrix: azref.BuildDamaged(sym, idx, vals)}
}

func (d *azDamage) addTo(info map[string]interface{}) map[string]interface{} {
	info["damage"] = d.String()
	info["damaged_idx"] = clip(d.idx)
	info["damaged_vals"] = clip(d.vals)
	return info
}

// ---------------------------------------------------------------- level 2: matrix

func (a *azSym) checkMatrix(r *fw.Rec, m [][]bool, d *azDamage, withPoints bool) bool {
	s := a.sym.Spec
	got, err := azDecodeMatrix(m, a.sym, withPoints)
	r.Evals(1)
	cls, what := "clean", "the clean reference matrix"
	info := a.info()
	if d != nil {
		cls, what = "damaged", "the reference matrix with "+d.String()
		d.addTo(info)
	}
	if err != nil {
		r.Violation("model-mismatch", "aztec.decoder:matrix-level:"+cls, fmt.Sprintf("Decoder.Decode rejected %s of %s %d layers (%d data + %d check codewords of %d bits, corrects %d): %v", what, azKindOf(s), s.Layers, a.sym.DataWords, a.sym.CheckWords(), s.WordSize(), a.sym.MaxCorrectable(), err), info)
		return false
	}
	if got != a.want {
		info["got"] = trunc(got, 200)
		r.Violation("model-mismatch", "aztec.decoder:matrix-level:"+cls, fmt.Sprintf("Decoder.Decode of %s of %s %d layers (%d data + %d check codewords of %d bits) returned other text %q, encoded %q", what, azKindOf(s), s.Layers, a.sym.DataWords, a.sym.CheckWords(), s.WordSize(), trunc(got, 60), trunc(a.want, 60)), info)
		return false
	}
	r.Tally("matrix_" + cls + "_ok")
	r.Tally("spec_" + azSpecName(s) + "_matrix_" + cls)
	if d != nil {
		r.Tally("damage_" + d.kName)
		r.Tally("damage_pos_" + d.pos)
		r.Tally("damage_val_" + d.val)
		r.Max("max_damaged_codewords", int64(d.k))
	}
	return true
}

func (a *azSym) tallySymbol(r *fw.Rec) {
	s := a.sym.Spec
	r.Tally("symbols_" + a.mode)
	r.Tally(fmt.Sprintf("symbols_word_size_%d", s.WordSize()))
	r.Max("max_data_codewords", int64(a.sym.DataWords))
	r.Max("max_check_codewords", int64(a.sym.CheckWords()))
	r.Max("max_stream_bits_in_symbol", int64(a.bits))
	if a.sym.CheckWords() == 3 {
		r.Tally("symbols_with_exactly_3_check_words")
	}
	if a.sym.DataWords == 1 {
		r.Tally("symbols_with_1_data_word")
	}
	if a.sym.DataWords == s.MaxDataWords() {
		r.Tally("compact_symbols_with_64_data_words") // only reachable in compact 4 layers (76 codewords)
	}
	if a.sym.DataWords > 1024 {
		r.Tally("full_symbols_with_more_than_1024_data_words")
	}
	azTallyTrace(r, a.trace)
}

var azDamagePlans = [][3]string{
	{"k1", "random", "random"}, {"k1", "first", "zeros"}, {"k1", "last", "ones"},
	{"kmax", "random", "random"}, {"kmax", "first", "mixed"}, {"kmax", "last", "mixed"},
	{"krandom", "random", "zeros"}, {"krandom", "random", "ones"}, {"krandom", "random", "mixed"},
	// blots: exactly as many codewords as can be corrected, all of them data words, all reading
	// all-zero or all-one (a solid white or black patch)
	{"kmax", "first", "zeros"}, {"kmax", "data", "blots"}, {"kmax", "first", "ones"},
}

func c11Matrix(r *fw.Rec, s azref.Spec, rep int) {
	rng := r.Rng
	a := azMakeSymbol(rng, s, rep%len(azCheckModes))
	if a == nil {
		r.Inconclusive("no token stream fitted " + azSpecName(s))
		return
	}
	a.tallySymbol(r)
	if !a.checkMatrix(r, a.sym.Matrix, nil, rep%2 == 1) {
		return
	}
	h := hash64s(azSpecName(s) + "|" + string(a.text))
	r.NontrivialH(h)
	for pi, p := range azDamagePlans {
		d := azMakeDamage(rng, a, p[0], p[1], p[2])
		if !a.checkMatrix(r, d.matrix, d, (rep+pi)%2 == 0) {
			return
		}
		r.NontrivialH(h ^ hashInts(d.idx, d.vals))
	}
	if rep == 0 && (s == azref.Spec{Layers: 9}) {
		info := a.info()
		info["kind"] = "matrix level: clean + 9 damage patterns up to max_correctable"
		r.Sample(info)
	}
}

// ---------------------------------------------------------------- level 3: image

const (
	azReadOK        = iota
	azReadKnown2px  // the recorded open finding (compact, 2 px/module, not located): the case goes on, every such read is counted
	azReadViolation // anything else: the case stops
)

// azQuiet is the quiet zone (in modules) of the renderings made by readImage: 4 by default; the
// 2-px family also renders with none and with one module (the standard requires no quiet zone).
var azQuiet = 4

// readImage renders m and reads it; anything but azReadOK means a violation was recorded.
func (a *azSym) readImage(r *fw.Rec, m [][]bool, d *azDamage, scale, rot int) int {
	s := a.sym.Spec
	res, err := azReadImage(azRender(m, scale, azQuiet, rot))
	r.Evals(1)
	if scale == 2 {
		if s.Compact {
			r.Tally("compact_2px_cases")
		} else {
			r.Tally("full_2px_cases")
		}
	}
	cls := "clean"
	info := a.info()
	info["scale"] = scale
	info["rotation"] = rot * 90
	if d != nil {
		cls = "damaged"
		d.addTo(info)
	}
	what := fmt.Sprintf("%s %s symbol, %d layers (%dx%d modules, %d data + %d check codewords), at %d px/module, rotated %d deg, %d-module quiet zone", cls, azKindOf(s), s.Layers, s.Size(), s.Size(), a.sym.DataWords, a.sym.CheckWords(), scale, rot*90, azQuiet)
	if err != nil {
		kind := azErrKind(err)
		if kind == "notfound" {
			sig := fmt.Sprintf("aztec.reader:notfound:%s:%dpx", azKindOf(s), scale)
			extra := ""
			if s.Compact && scale == 2 && d == nil {
				// the recorded open finding: only if the same matrix decodes and the same symbol reads at 3 px/module
				mt, merr := azDecodeMatrix(m, a.sym, false)
				r3, err3 := azReadImage(azRender(m, 3, azQuiet, rot))
				r.Evals(2)
				if merr == nil && mt == a.want && err3 == nil && r3.GetText() == a.want {
					r.Violation("not-located", "aztec.reader:compact-2px-notfound", fmt.Sprintf("AztecReader.Decode did not locate a %s (%v); Decoder.Decode of the same matrix and the reader at 3 px/module both return the text", what, azInnermost(err)), info)
					r.Tally("compact_2px_notfound_confirmed_matrix_and_3px_ok")
					return azReadKnown2px
				}
				extra = fmt.Sprintf(" [matrix-level: %v / equal=%v; 3 px/module: %v]", merr, mt == a.want, err3)
			}
			r.Violation("not-located", sig, fmt.Sprintf("AztecReader.Decode did not locate a %s: %v%s", what, err, extra), info)
			return azReadViolation
		}
		r.Violation("not-decoded", "aztec.reader:error:"+kind, fmt.Sprintf("AztecReader.Decode failed on a %s: %v", what, err), info)
		return azReadViolation
	}
	if res.GetText() != a.want {
		info["got"] = trunc(res.GetText(), 200)
		r.Violation("misread", "aztec.reader:misread", fmt.Sprintf("AztecReader.Decode of a %s returned other text %q, encoded %q", what, trunc(res.GetText(), 60), trunc(a.want, 60)), info)
		return azReadViolation
	}
	if res.GetBarcodeFormat() != gozxing.BarcodeFormat_AZTEC {
		r.Violation("model-mismatch", "aztec.reader:format", fmt.Sprintf("AztecReader.Decode of a %s reports format %v", what, res.GetBarcodeFormat()), info)
		return azReadViolation
	}
	r.Tally("image_" + cls + "_ok")
	r.Tally(fmt.Sprintf("image_scale_%dpx", scale))
	r.Tally(fmt.Sprintf("image_rotation_%d", rot*90))
	r.Tally(fmt.Sprintf("image_%s_%dpx", azKindOf(s), scale))
	r.Tally("spec_" + azSpecName(s) + "_image_reads")
	return azReadOK
}

func c11Image(r *fw.Rec, s azref.Spec, rep int, scales []int, damage bool) {
	rng := r.Rng
	a := azMakeSymbol(rng, s, (rep+1)%len(azCheckModes))
	if a == nil {
		r.Inconclusive("no token stream fitted " + azSpecName(s))
		return
	}
	a.tallySymbol(r)
	h := hash64s("img|" + azSpecName(s) + "|" + string(a.text))
	for _, scale := range scales {
		for rot := 0; rot < 4; rot++ {
			if a.readImage(r, a.sym.Matrix, nil, scale, rot) == azReadViolation {
				return
			}
			r.NontrivialH(h ^ uint64(scale*4+rot)*0x9E3779B97F4A7C15)
		}
		if damage && scale >= 3 {
			p := azDamagePlans[rng.Intn(len(azDamagePlans))]
			d := azMakeDamage(rng, a, p[0], p[1], p[2])
			rot := rng.Intn(4)
			if a.readImage(r, d.matrix, d, scale, rot) != azReadOK {
				return
			}
			r.Tally("image_damage_" + d.kName)
			r.NontrivialH(h ^ hashInts(d.idx, d.vals) ^ uint64(scale*4+rot))
		}
	}
	if rep == 0 && (s == azref.Spec{Compact: true, Layers: 2} || s == azref.Spec{Layers: 23}) {
		info := a.info()
		info["kind"] = "image level"
		info["scales"] = scales
		info["rotations"] = []int{0, 90, 180, 270}
		r.Sample(info)
	}
}

// c11TwoPx: many small symbols at exactly 2 px/module, 4 rotations each (the
// resolution at which the open finding of the locating stage was measured).
func c11TwoPx(r *fw.Rec, s azref.Spec, symbols int) {
	rng := r.Rng
	for i := 0; i < symbols; i++ {
		a := azMakeSymbol(rng, s, rng.Intn(len(azCheckModes)))
		if a == nil {
			continue
		}
		h := hash64s("2px|" + azSpecName(s) + "|" + string(a.text))
		azQuiet = []int{4, 0, 1, 4}[i%4]
		r.Tally(fmt.Sprintf("two_px_symbols_with_quiet_zone_%d", azQuiet))
		for rot := 0; rot < 4; rot++ {
			if a.readImage(r, a.sym.Matrix, nil, 2, rot) == azReadViolation {
				azQuiet = 4
				return
			}
			r.NontrivialH(h ^ uint64(rot))
		}
		azQuiet = 4
	}
}

// c11Compact64: the largest data-word count a compact mode message can express
// (6 bits holding 63): compact 4 layers with exactly 64 data + 12 check codewords.
func c11Compact64(r *fw.Rec) {
	rng := r.Rng
	s := azref.Spec{Compact: true, Layers: 4}
	var a *azSym
	for draw := 0; draw < 400 && a == nil; draw++ {
		bits, text, trace := azref.RandomTokensTraced(rng, 64*8-rng.Intn(4))
		if sym, ok := azref.Build(s, bits, 3); ok && sym.DataWords == 64 {
			a = &azSym{sym: sym, text: text, want: azLatin1(text), trace: trace, mode: "compact-64-data-words", bits: len(bits)}
		}
	}
	if a == nil {
		r.Inconclusive("no token stream with exactly 64 data words in 400 draws")
		return
	}
	a.tallySymbol(r)
	if !a.checkMatrix(r, a.sym.Matrix, nil, false) {
		return
	}
	d := azMakeDamage(rng, a, "kmax", "random", "mixed")
	if !a.checkMatrix(r, d.matrix, d, true) {
		return
	}
	for rot := 0; rot < 4; rot++ {
		if a.readImage(r, a.sym.Matrix, nil, 3+rot%3, rot) != azReadOK {
			return
		}
	}
	r.Nontrivial("c64|" + string(a.text))
}

// ---------------------------------------------------------------- driver

func c11(c *fw.Ctx) {
	c.Rule("symbols come from azref (harness/ref/azref), an encoder typed from ISO/IEC 24778 that works on TOKEN walks: a random walk over (latch table, action) emits characters of the five tables, every direct latch, P/S (incl. the two-character codes), U/S, B/S in short (1..31) and long (32..2078) form, and produces the expected bytes itself; then bit stuffing, RS check words over GF(64/256/1024/4096), GF(16) mode message, reference grid, layer spiral, bull's-eye and orientation marks. " +
		"Level 1 (hl/*): HighLevelDecode(bits) == text for thousands of streams of 5..18000 bits. " +
		"Level 2 (mx/*): all 36 sizes x fill modes (exactly/near 3 check words, 23%+3, half or more check words, 1-3 data words, random): Decoder.Decode(NewAztecDetectorResult(matrix, nil|corners, compact, dataWords, layers)) == text, clean and with k <= floor(check/2) replaced codewords (k = 1 / max / random; first / last / random positions; random / all-0 / all-1 values). " +
		"Level 3 (img/*, c2px/*, f2px/*): the matrix painted into an image.Gray at 2..5 px/module with a 4-module white quiet zone, rotated by exact quarter turns, read with AztecReader.Decode(HybridBinarizer bitmap, nil): text and format AZTEC; damaged symbols at >= 3 px/module. A failure at any level is a violation; the compact / exactly 2 px / NotFound observation that decodes at matrix level and reads at 3 px has its own signature (open finding of the locating stage), its denominator is compact_2px_cases (every compact symbol image read at 2 px/module; a case goes on after such an observation so that numerator and denominator both count reads). distinct = distinct (size, text, scale, rotation, damage) Mode-message sweep: one clean symbol for every announceable (size, data-codeword count) pair above 1024 data codewords and of the compact sizes (all pairs of all 36 sizes in the thorough tier, every 16th block of 24 below 1024 in quick), read as an image at 3 px/module in a random orientation.")
	c.Assume("azref is the transcription of ISO/IEC 24778 (anchored in the start-up self-test on the size table, capacities, published mode-message, stuffing and high-level vectors); texts never contain FLG(n)/ECI, so the expected string is the bytes read as ISO-8859-1")
	c.Assume("symbols carry at least 3 check codewords (the standard's floor); 'up to the correction capacity' is floor(check/2) replaced codewords, finder / mode message / reference grid undamaged")

	// level 1
	hlCases := c.Pick(100, 1000)
	for i := 0; i < hlCases; i++ {
		i := i
		c.Run(fmt.Sprintf("hl/%d", i), func(r *fw.Rec) { c11HighLevel(r, 50, i == 0) })
	}
	specs := azref.AllSpecs()
	// level 2
	mxReps := c.Pick(10, 60)
	for _, s := range specs {
		for rep := 0; rep < mxReps; rep++ {
			s, rep := s, rep
			c.Run(fmt.Sprintf("mx/%s/%d", azSpecName(s), rep), func(r *fw.Rec) { c11Matrix(r, s, rep) })
		}
	}
	// level 3
	imgReps := c.Pick(8, 40)
	for _, s := range specs {
		for rep := 0; rep < imgReps; rep++ {
			s, rep := s, rep
			scales := []int{3, 4, 5, 2}
			if c.Quick() { // every (size, rotation) at two scales per text; the four texts cover {2,3},{4,5},{2,4},{3,5}
				scales = [][]int{{3, 2}, {4, 5}, {4, 2}, {3, 5}}[rep%4]
			}
			c.Run(fmt.Sprintf("img/%s/%d", azSpecName(s), rep), func(r *fw.Rec) { c11Image(r, s, rep, scales, !c.Quick() || rep%2 == 1) })
		}
	}
	// 2 px/module on the small symbols, compact and (for comparison) full-range 1..4 layers
	batches := c.Pick(25, 300)
	for l := 1; l <= 4; l++ {
		for b := 0; b < batches; b++ {
			l, b := l, b
			c.Run(fmt.Sprintf("c2px/C%d/%d", l, b), func(r *fw.Rec) { c11TwoPx(r, azref.Spec{Compact: true, Layers: l}, 20) })
			c.Run(fmt.Sprintf("f2px/F%02d/%d", l, b), func(r *fw.Rec) { c11TwoPx(r, azref.Spec{Layers: l}, 20) })
		}
	}
	edge := c.Pick(4, 40)
	for i := 0; i < edge; i++ {
		c.Run(fmt.Sprintf("edge/C4-64-data-words/%d", i), func(r *fw.Rec) { c11Compact64(r) })
	}
	c.Exhaustive("the 36 Aztec symbol sizes")

	neci := c.Pick(30, 600)
	for i := 0; i < neci; i++ {
		c.Run(fmt.Sprintf("eci/%d", i), func(r *fw.Rec) { c11ECICase(r) })
	}
	for i := 0; i < c.Pick(4, 40); i++ {
		c.Run(fmt.Sprintf("single-high-byte/%d", i), func(r *fw.Rec) { c11SingleHighByte(r) })
	}
	c.Floor("single_high_byte_messages", 500)
	c.Floor("eci_streams_decoded", int64(neci*20))
	for si, s := range azref.AllSpecs() {
		s := s
		for k := 0; k < c.Pick(1, 12); k++ {
			c.Run(fmt.Sprintf("canvas/%d/%d", si, k), func(r *fw.Rec) { c11CanvasCase(r, s) })
		}
	}
	// mode-message sweep: every announceable (size, data codewords) pair above 1024 data words
	// (the 11-bit field's top bit) and of the compact sizes; the others stratified
	for _, s := range azref.AllSpecs() {
		s := s
		T := s.TotalWords() - 3
		if T > s.MaxDataWords() {
			T = s.MaxDataWords()
		}
		step := 1
		if !s.Compact && !c.Quick() {
			step = 1
		} else if !s.Compact {
			step = 16
		}
		for lo := 1; lo <= T; lo += 24 {
			lo := lo
			hi := lo + 24
			if hi > T+1 {
				hi = T + 1
			}
			if !s.Compact && lo+24 <= 1024 && (lo/24)%step != 0 {
				continue
			}
			c.Run(fmt.Sprintf("modesweep/%s/%d", azSpecName(s), lo), func(r *fw.Rec) { c11ModeSweep(r, s, lo, hi) })
		}
	}
	c.Floor("mode_sweep_pairs_read", 1500)
	c.Floor("mode_sweep_pairs_read_more_than_1024_data_words", 1000)
	c.Floor("portrait_canvas_reads", 50)
	c.Floor("landscape_canvas_reads", 50)
	nreuse := c.Pick(150, 1500)
	for i := 0; i < nreuse; i++ {
		c.Run(fmt.Sprintf("reuse/%d", i), func(r *fw.Rec) { c11ReuseCase(r) })
	}
	c.Floor("reused_decoder_histories", int64(nreuse*8/10))
	c.Floor("highlevel_streams_equal", int64(hlCases*50*9/10))
	c.Floor("highlevel_streams_le_30_bits", 100)
	c.Floor("highlevel_streams_gt_1000_bits", 100)
	for _, k := range azTokenKinds {
		c.Floor("tok_"+k, 1)
	}
	for _, s := range specs {
		n := azSpecName(s)
		c.Floor("spec_"+n+"_matrix_clean", int64(mxReps)*8/10)
		c.Floor("spec_"+n+"_matrix_damaged", int64(mxReps*len(azDamagePlans))*8/10)
		c.Floor("spec_"+n+"_image_reads", int64(imgReps*8)*7/10)
	}
	for _, sc := range []int{2, 3, 4, 5} {
		c.Floor(fmt.Sprintf("image_scale_%dpx", sc), int64(36*imgReps))
	}
	for _, rot := range []int{0, 90, 180, 270} {
		c.Floor(fmt.Sprintf("image_rotation_%d", rot), int64(36*imgReps))
	}
	c.Floor("image_damaged_ok", int64(36*imgReps/2))
	c.Floor("compact_2px_cases", int64(4*batches*80*8/10))
	c.Floor("full_2px_cases", int64(4*batches*80*8/10))
	for _, k := range []string{"damage_k1", "damage_kmax", "damage_krandom", "damage_pos_first", "damage_pos_last", "damage_pos_random", "damage_val_zeros", "damage_val_ones", "damage_val_random", "damage_val_mixed"} {
		c.Floor(k, int64(36*mxReps)*8/10)
	}
	for _, m := range azCheckModes {
		c.Floor("symbols_"+m, 36)
	}
	c.Floor("symbols_with_exactly_3_check_words", 10)
	c.Floor("symbols_empty-message", 10)
	for _, tb := range []azref.Table{azref.Upper, azref.Lower, azref.Mixed, azref.Punct, azref.Digit} {
		tb := tb
		c.Run("hl-dense/"+tb.String(), func(r *fw.Rec) { c11DenseRuns(r, tb) })
	}
	c.Floor("highlevel_dense_single_code_runs", 600)
	c.Floor("compact_symbols_with_64_data_words", int64(edge))
	c.Floor("full_symbols_with_more_than_1024_data_words", 1)
}
