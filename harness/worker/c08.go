//go:build verif

package main

import (
	"fmt"
	"sort"

	"github.com/makiuchi-d/gozxing"
	"github.com/makiuchi-d/gozxing/datamatrix"
	dmdec "github.com/makiuchi-d/gozxing/datamatrix/decoder"
	dmenc "github.com/makiuchi-d/gozxing/datamatrix/encoder"

	"verifharness/fw"
	"verifharness/ref/dmref"
)

// C08: Data Matrix ECC 200 against an independent construction from ISO/IEC 16022.

func init() {
	fw.Register("C08", c08)
	fw.RegisterSelfTest("dmref-anchors", dmrefSelfTest)
}

func dmrefSelfTest() error {
	s, ok := dmref.BySize(10, 10)
	if !ok {
		return fmt.Errorf("no 10x10")
	}
	full := dmref.ECC(s, []byte{142, 164, 186})
	if fmt.Sprint(full) != fmt.Sprint([]byte{142, 164, 186, 114, 25, 5, 88, 102}) {
		return fmt.Errorf("'123456' example: %v", full)
	}
	if fmt.Sprint(dmref.Generator(5)) != fmt.Sprint([]int{1, 62, 111, 15, 48, 228}) {
		return fmt.Errorf("generator(5) %v", dmref.Generator(5))
	}
	big, _ := dmref.BySize(144, 144)
	if big.DataCW != 1558 || big.ECCW != 620 || big.Blocks != 10 || len(dmref.Symbols()) != 30 {
		return fmt.Errorf("144x144 entry %+v", big)
	}
	if fmt.Sprint(dmref.EncodeASCII([]byte("123456"))) != fmt.Sprint([]byte{142, 164, 186}) {
		return fmt.Errorf("EncodeASCII")
	}
	return nil
}

func c08Tables(r *fw.Rec) {
	// encoder symbol table
	lib := dmenc.VerifSymbols()
	if len(lib) != 30 {
		r.Violation("model-mismatch", "dm.tables:encoder-symbol-count", fmt.Sprintf("encoder has %d symbol entries, ECC 200 has 30", len(lib)), nil)
		return
	}
	for _, s := range dmref.Symbols() {
		si := dmLibSymbol(s)
		name := fmt.Sprintf("%dx%d", s.Rows, s.Cols)
		if si == nil {
			r.Violation("model-mismatch", "dm.tables:encoder-symbol-missing", "encoder has no entry for "+name, nil)
			return
		}
		got := []int{si.GetDataCapacity(), si.GetErrorCodewords(), si.GetMatrixHeight(), si.GetMatrixWidth(), si.GetSymbolDataHeight(), si.GetSymbolDataWidth(), si.GetInterleavedBlockCount(), si.GetCodewordCount()}
		want := []int{s.DataCW, s.ECCW, s.RegionRows, s.RegionCols, s.MappingRows(), s.MappingCols(), s.Blocks, s.DataCW + s.ECCW}
		if !intsEq(got, want) {
			r.Violation("model-mismatch", "dm.tables:encoder-symbol-entry", fmt.Sprintf("encoder entry %s (data, ec, regionRows, regionCols, mapRows, mapCols, blocks, total) = %v, standard %v", name, got, want), map[string]interface{}{"size": name})
			return
		}
		for b := 0; b < s.Blocks; b++ {
			if si.GetDataLengthForInterleavedBlock(b+1) != s.BlockDataCW(b) || si.GetErrorLengthForInterleavedBlock(b+1) != s.BlockECCW() {
				r.Violation("model-mismatch", "dm.tables:encoder-block-sizes", fmt.Sprintf("encoder entry %s block %d: data %d ec %d, standard %d/%d", name, b+1, si.GetDataLengthForInterleavedBlock(b+1), si.GetErrorLengthForInterleavedBlock(b+1), s.BlockDataCW(b), s.BlockECCW()), map[string]interface{}{"size": name})
				return
			}
		}
		r.Tally("encoder_symbol_entries_equal")
	}
	// decoder size table on the 30 ECC 200 sizes
	seen := 0
	for _, row := range dmdec.VerifVersions() {
		s, ok := dmref.BySize(row[1], row[2])
		if !ok {
			r.Tally("decoder_entries_outside_ecc200_ignored")
			continue
		}
		seen++
		name := fmt.Sprintf("%dx%d", s.Rows, s.Cols)
		// group reference blocks by data length, larger first (as the standard lists them)
		cnt := map[int]int{}
		for b := 0; b < s.Blocks; b++ {
			cnt[s.BlockDataCW(b)]++
		}
		var sizes []int
		for k := range cnt {
			sizes = append(sizes, k)
		}
		sort.Sort(sort.Reverse(sort.IntSlice(sizes)))
		want := []int{s.Rows, s.Cols, s.RegionRows, s.RegionCols, s.BlockECCW(), s.DataCW + s.ECCW}
		for _, k := range sizes {
			want = append(want, cnt[k], k)
		}
		got := append([]int{}, row[1:]...)
		if !intsEq(got, want) {
			r.Violation("model-mismatch", "dm.tables:decoder-version-entry", fmt.Sprintf("decoder entry %s (rows, cols, regionRows, regionCols, ecPerBlock, total, blocks...) = %v, standard %v", name, got, want), map[string]interface{}{"size": name})
			return
		}
		r.Tally("decoder_version_entries_equal")
	}
	if seen != 30 {
		r.Violation("model-mismatch", "dm.tables:decoder-version-missing", fmt.Sprintf("decoder size table covers %d of the 30 ECC 200 sizes", seen), nil)
		return
	}
	// generator factor tables
	sets, tables := dmenc.VerifFactors()
	wantSets := []int{5, 7, 10, 11, 12, 14, 18, 20, 24, 28, 36, 42, 48, 56, 62, 68}
	if !intsEq(sets, wantSets) {
		r.Violation("model-mismatch", "dm.tables:factor-sets", fmt.Sprintf("parity lengths %v, standard %v", sets, wantSets), nil)
		return
	}
	for i, n := range sets {
		g := dmref.Generator(n) // highest degree first, monic
		want := make([]int, n)
		for k := 0; k < n; k++ {
			want[k] = g[n-k] // coefficient of x^k
		}
		if !intsEq(tables[i], want) {
			r.Violation("model-mismatch", "dm.tables:generator-factors", fmt.Sprintf("stored factors for %d parity codewords %v differ from prod(x-2^i) %v", n, tables[i], want), map[string]interface{}{"parity": n})
			return
		}
		r.Tally("generator_tables_equal")
	}
	r.Nontrivial("tables")
	r.Sample(map[string]interface{}{"kind": "tables", "checked": "30 encoder entries, 30 decoder entries, 16 generator polynomials"})
}

func randCodewords(rng *fw.Rand, n int) []byte {
	b := make([]byte, n)
	switch rng.Intn(5) {
	case 0:
		for i := range b {
			b[i] = 0
		}
	case 1:
		for i := range b {
			b[i] = 0xFF
		}
	default:
		for i := range b {
			b[i] = byte(rng.Uint64())
		}
	}
	return b
}

// c08Construct: ECC + placement on arbitrary codeword vectors for one size.
func c08Construct(r *fw.Rec, s dmref.Symbol) {
	rng := r.Rng
	name := fmt.Sprintf("%dx%d", s.Rows, s.Cols)
	si := dmLibSymbol(s)
	if si == nil {
		r.Violation("model-mismatch", "dm.tables:encoder-symbol-missing", "encoder has no entry for "+name, nil)
		return
	}
	data := randCodewords(rng, s.DataCW)
	info := map[string]interface{}{"size": name, "data": fmt.Sprintf("%x", data)}
	full, err := dmenc.ErrorCorrection_EncodeECC200(data, si)
	if err != nil {
		r.Violation("model-mismatch", "dm.ecc:error", fmt.Sprintf("ErrorCorrection_EncodeECC200 for %s failed: %v", name, err), info)
		return
	}
	want := dmref.ECC(s, data)
	if string(full) != string(want) {
		first := -1
		for i := range want {
			if i >= len(full) || full[i] != want[i] {
				first = i
				break
			}
		}
		sig := "dm.ecc:parity-differs"
		if first >= 0 && first < s.DataCW {
			sig = "dm.ecc:data-changed"
		} else if s.Blocks > 1 {
			// same multiset of parity values? then it is an interleaving error
			a := append([]byte{}, full[s.DataCW:]...)
			b := append([]byte{}, want[s.DataCW:]...)
			sort.Slice(a, func(i, j int) bool { return a[i] < a[j] })
			sort.Slice(b, func(i, j int) bool { return b[i] < b[j] })
			if string(a) == string(b) {
				sig = "dm.ecc:parity-interleaved-in-wrong-order"
			}
		}
		r.Violation("model-mismatch", sig, fmt.Sprintf("ErrorCorrection_EncodeECC200 for %s differs from the standard at codeword %d (0-based; %d data codewords, %d blocks): library %d, standard %d", name, first, s.DataCW, s.Blocks, at(full, first), at(want, first)), info)
		return
	}
	r.Tally("ecc_vectors_equal")
	// codeword vectors that are consecutive pieces of one longer stream (slices with spare capacity
	// behind them): each piece is encoded as it was when the stream was filled
	if rng.Intn(2) == 0 {
		stream := randCodewords(rng, 3*s.DataCW+rng.Intn(8))
		orig := append([]byte{}, stream...)
		for k := 0; k < 3; k++ {
			piece := stream[k*s.DataCW : (k+1)*s.DataCW]
			got, err := dmenc.ErrorCorrection_EncodeECC200(piece, si)
			want := dmref.ECC(s, orig[k*s.DataCW:(k+1)*s.DataCW])
			if err != nil || string(got) != string(want) {
				r.Violation("model-mismatch", "dm.ecc:piece-of-a-longer-stream", fmt.Sprintf("ErrorCorrection_EncodeECC200 for %s on piece %d of a stream of 3 vectors (a slice with spare capacity behind it): result differs from the standard's for the codewords the piece held (%v)", name, k, err), info)
				return
			}
		}
		if string(stream) != string(orig) {
			r.Violation("model-mismatch", "dm.ecc:callers-stream-changed", fmt.Sprintf("ErrorCorrection_EncodeECC200 for %s changed the caller's codeword stream outside / inside the vectors it was given", name), info)
			return
		}
		r.Tally("ecc_vectors_as_pieces_of_a_stream")
	}
	// a second call (another vector, possibly another size) must not disturb the first result:
	// the codeword stream is handed to the placement step later, not consumed at once
	{
		syms := dmref.Symbols()
		s2 := syms[rng.Intn(len(syms))]
		if si2 := dmLibSymbol(s2); si2 != nil {
			d2 := randCodewords(rng, s2.DataCW)
			full2, err2 := dmenc.ErrorCorrection_EncodeECC200(d2, si2)
			if err2 == nil && string(full2) != string(dmref.ECC(s2, d2)) && !(s2.Rows == s.Rows && s2.Cols == s.Cols) {
				// (reported by its own case)
				_ = full2
			}
		}
		if string(full) != string(want) {
			r.Violation("model-mismatch", "dm.ecc:result-changed-by-a-later-call", fmt.Sprintf("the codeword stream returned by ErrorCorrection_EncodeECC200 for %s changed when the function was called again for another vector", name), info)
			return
		}
		r.Tally("ecc_result_stable_across_calls")
	}
	// placement
	pl := dmenc.NewDefaultPlacement(full, s.MappingCols(), s.MappingRows())
	pl.Place()
	ref := dmref.Placement(s.MappingRows(), s.MappingCols())
	for row := 0; row < s.MappingRows(); row++ {
		for col := 0; col < s.MappingCols(); col++ {
			v := ref[row][col]
			var wantBit bool
			switch {
			case v == dmref.FixedDark:
				wantBit = true
			case v == dmref.FixedLight:
				wantBit = false
			default:
				wantBit = want[v/8]>>(7-uint(v%8))&1 == 1
			}
			if pl.GetBit(col, row) != wantBit {
				r.Violation("model-mismatch", "dm.placement:module-differs", fmt.Sprintf("DefaultPlacement for %s: mapping-matrix module (row %d, col %d) is %v, Annex F placement says %v (codeword %d bit %d)", name, row, col, pl.GetBit(col, row), wantBit, v/8, v%8+1), info)
				return
			}
		}
	}
	r.Tally("placements_equal")
	// decoder on the reference symbol built from these codewords (raw data codewords must come back)
	m := dmref.BuildMatrix(s, data)
	res, derr := dmdec.NewDecoder().Decode(boolsToBitMatrix(m))
	// arbitrary codewords need not be a valid high-level stream: only the error correction / de-interleaving stage is charged
	if derr != nil {
		if _, isChk := derr.(gozxing.ChecksumException); isChk {
			r.Violation("model-mismatch", "dm.decode:reference-symbol-checksum", fmt.Sprintf("decoder reports a checksum error on the clean standard construction of %s", name), info)
			return
		}
		r.Tally("decoder_reference_random_stream_format_error_ok")
	} else {
		if string(res.GetRawBytes()) != string(data) {
			r.Violation("model-mismatch", "dm.decode:raw-bytes-differ", fmt.Sprintf("decoder's data codewords for the standard construction of %s differ", name), info)
			return
		}
		r.Tally("decoder_reference_raw_bytes_equal")
	}
	r.Evals(3)
	r.Nontrivial(name + "|" + string(data))
}

func at(b []byte, i int) int {
	if i < 0 || i >= len(b) {
		return -1
	}
	return int(b[i])
}

// c08Symbol: full symbols through the writer vs the reference, and the decoder on reference symbols with errors.
func c08Symbol(r *fw.Rec, s dmref.Symbol) {
	rng := r.Rng
	name := fmt.Sprintf("%dx%d", s.Rows, s.Cols)
	// plain ASCII text that lands on this size: digits and lower-case letters
	var text []byte
	var cw []byte
	for tries := 0; tries < 50; tries++ {
		text = text[:0]
		target := s.DataCW
		if rng.Intn(3) == 0 && target > 1 {
			target -= rng.Intn(minInt(target-1, 6) + 1)
		}
		for len(dmref.EncodeASCII(text)) < target {
			if rng.Intn(3) == 0 {
				text = append(text, byte('0'+rng.Intn(10)), byte('0'+rng.Intn(10)))
			} else if rng.Intn(6) == 0 && len(dmref.EncodeASCII(text))+2 <= target {
				text = append(text, byte(0x80+rng.Intn(0x80)))
			} else {
				text = append(text, byte('a'+rng.Intn(26)))
			}
		}
		cw = dmref.EncodeASCII(text)
		if len(cw) <= s.DataCW {
			if prev, ok := dmref.Lookup(len(cw), shapeOf(s), 0, 0, 0, 0); ok && prev.Rows == s.Rows && prev.Cols == s.Cols {
				break
			}
		}
		cw = nil
	}
	if cw == nil {
		r.Inconclusive("could not build an ASCII text landing on " + name)
		return
	}
	data := dmref.PadTo(cw, s.DataCW)
	ref := dmref.BuildMatrix(s, data)
	// expected text as Go string (Latin-1 code points)
	rs := make([]rune, len(text))
	for i, b := range text {
		rs[i] = rune(b)
	}
	wantText := string(rs)
	info := map[string]interface{}{"size": name, "text": wantText}
	// decoder on the clean reference symbol and with t errors per block
	for pass := 0; pass < 2; pass++ {
		m := copyBools(ref)
		if pass == 1 {
			mods := dmref.CodewordModules(s)
			t := s.BlockECCW() / 2
			perBlock := map[int]int{}
			for _, i := range rng.Perm(s.DataCW + s.ECCW) {
				b, _ := dmref.CodewordBlock(s, i)
				if perBlock[b] >= t {
					continue
				}
				perBlock[b]++
				flip := byte(1 + rng.Intn(255))
				for bit := 0; bit < 8; bit++ {
					if flip>>(7-uint(bit))&1 == 1 {
						xy := mods[i][bit]
						m[xy[1]][xy[0]] = !m[xy[1]][xy[0]]
					}
				}
			}
		}
		res, err := dmdec.NewDecoder().Decode(boolsToBitMatrix(m))
		what := []string{"clean", "with floor(ec/2) damaged codewords per block"}[pass]
		if err != nil {
			r.Violation("model-mismatch", "dm.decode:reference-symbol-rejected:"+[]string{"clean", "damaged"}[pass], fmt.Sprintf("decoder rejected the standard construction of %s (%s): %v", name, what, err), info)
			return
		}
		if string(res.GetRawBytes()) != string(data) {
			r.Violation("model-mismatch", "dm.decode:raw-bytes-differ", fmt.Sprintf("decoder's data codewords for the standard construction of %s (%s) differ", name, what), info)
			return
		}
		r.Tally("decoder_reference_symbols_" + []string{"clean", "damaged"}[pass])
	}
	// the writer: same text must produce the same matrix when its high-level encoder
	// chooses the same codewords; compare through the library's own codewords otherwise
	hl, err := dmenc.EncodeHighLevel(wantText, shapeHint(s), nil, nil)
	if err != nil {
		r.Tally("writer_highlevel_error_skipped")
		return
	}
	if len(hl) != s.DataCW {
		r.Tally("writer_other_size_skipped")
		return
	}
	hints := map[gozxing.EncodeHintType]interface{}{gozxing.EncodeHintType_DATA_MATRIX_SHAPE: shapeHint(s)}
	bm, werr := datamatrix.NewDataMatrixWriter().Encode(wantText, gozxing.BarcodeFormat_DATA_MATRIX, 0, 0, hints)
	if werr != nil {
		r.Tally("writer_error_skipped")
		return
	}
	wantM := dmref.BuildMatrix(s, hl)
	got := bitMatrixToBools(bm)
	if len(got) != len(wantM) || len(got[0]) != len(wantM[0]) {
		r.Violation("model-mismatch", "dm.writer:symbol-size", fmt.Sprintf("writer produced %dx%d for codewords of %s", len(got), len(got[0]), name), info)
		return
	}
	for y := range got {
		for x := range got[y] {
			if got[y][x] != wantM[y][x] {
				fn, _ := dmref.IsFunctionModule(s, x, y)
				kind := "data-module"
				if fn {
					kind = "finder-or-clock"
				}
				r.Violation("model-mismatch", "dm.writer:matrix-differs:"+kind, fmt.Sprintf("writer's %s symbol differs from the standard construction of its own data codewords at (%d,%d) [%s]", name, x, y, kind), info)
				return
			}
		}
	}
	r.Tally("writer_matrices_equal")
	// the same size asked for by MIN_SIZE alone (no shape hint, a two-digit message = one codeword):
	// the symbol is the first of Table 7 that is at least that large - for the two pairs of sizes
	// that share a capacity (12x12 / 8x18, 20x20 / 12x36) the length of the padded codeword stream
	// does not tell which one was meant
	{
		minD, _ := gozxing.NewDimension(s.Cols, s.Rows)
		wantS, ok := dmref.Lookup(1, 0, s.Rows, s.Cols, 0, 0)
		h2 := map[gozxing.EncodeHintType]interface{}{gozxing.EncodeHintType_MIN_SIZE: minD}
		bm2, err2 := datamatrix.NewDataMatrixWriter().Encode("42", gozxing.BarcodeFormat_DATA_MATRIX, 0, 0, h2)
		hl2, herr := dmenc.EncodeHighLevel("42", dmenc.SymbolShapeHint_FORCE_NONE, minD, nil)
		if ok && err2 == nil && herr == nil && len(hl2) == wantS.DataCW {
			got2, want2 := bitMatrixToBools(bm2), dmref.BuildMatrix(wantS, hl2)
			same := len(got2) == len(want2) && len(got2[0]) == len(want2[0])
			for y := 0; same && y < len(got2); y++ {
				for x := range got2[y] {
					if got2[y][x] != want2[y][x] {
						same = false
						break
					}
				}
			}
			if !same {
				r.Violation("model-mismatch", "dm.writer:min-size-symbol-differs", fmt.Sprintf("writer asked for MIN_SIZE %dx%d alone produced %dx%d; the standard construction of its codewords in the first symbol at least that large (%dx%d) differs", s.Rows, s.Cols, len(got2), len(got2[0]), wantS.Rows, wantS.Cols), info)
				return
			}
			r.Tally("writer_matrices_equal_min_size_alone")
		} else {
			r.Tally("writer_min_size_alone_skipped")
		}
	}
	if string(hl) == string(data) {
		r.Tally("writer_codewords_equal_plain_ascii_reference")
	}
	r.Evals(3)
	r.Nontrivial(name + "|" + wantText)
	if s.Rows == 16 && s.Cols == 16 {
		r.Sample(info)
	}
}

// c08Randomise: pad and Base-256 randomisation at every position up to 1558, observed in EncodeHighLevel's output.
func c08Randomise(r *fw.Rec) {
	min, _ := gozxing.NewDimension(144, 144)
	// pads: a one-character message in a forced 144x144 symbol
	hl, err := dmenc.EncodeHighLevel("A", dmenc.SymbolShapeHint_FORCE_NONE, min, nil)
	if err != nil || len(hl) != 1558 {
		r.Violation("model-mismatch", "dm.pad:forced-144-failed", fmt.Sprintf("EncodeHighLevel(\"A\", min 144x144): %d codewords, %v", len(hl), err), nil)
		return
	}
	if hl[0] != 66 || hl[1] != 129 {
		r.Violation("model-mismatch", "dm.pad:first-pad", fmt.Sprintf("codewords start %v, expected 66 129", hl[:2]), nil)
		return
	}
	for pos := 3; pos <= 1558; pos++ {
		if hl[pos-1] != dmref.Pad253(pos) {
			r.Violation("model-mismatch", "dm.pad:253-state", fmt.Sprintf("pad at codeword position %d is %d, 253-state rule gives %d", pos, hl[pos-1], dmref.Pad253(pos)), map[string]interface{}{"position": pos})
			return
		}
	}
	r.TallyN("pad_positions_checked", 1556)
	// Base 256: 1550 high bytes in a forced 144x144 symbol (latch + 2 length bytes + data, then pads)
	rng := r.Rng
	for _, n := range []int{1550, 1200, 300, 249, 250, 251, 40} {
		rs := make([]rune, n)
		raw := make([]byte, n)
		for i := range rs {
			raw[i] = byte(0x80 + rng.Intn(0x80))
			rs[i] = rune(raw[i])
		}
		hl, err = dmenc.EncodeHighLevel(string(rs), dmenc.SymbolShapeHint_FORCE_NONE, min, nil)
		if err != nil {
			r.Violation("model-mismatch", "dm.base256:forced-144-failed", fmt.Sprintf("EncodeHighLevel(%d high bytes, min 144x144): %v", n, err), nil)
			return
		}
		if hl[0] != 231 {
			r.Tally("base256_not_chosen_skipped")
			continue
		}
		// independent reading of the stream: length field then data, all un-randomised by position
		pos := 2
		d1 := int(dmref.Unrand255(hl[pos-1], pos))
		pos++
		length := d1
		if d1 >= 250 {
			d2 := int(dmref.Unrand255(hl[pos-1], pos))
			pos++
			length = 250*(d1-249) + d2
		}
		if length != n {
			r.Violation("model-mismatch", "dm.base256:length-field", fmt.Sprintf("Base 256 length field un-randomises to %d for a run of %d bytes", length, n), map[string]interface{}{"n": n})
			return
		}
		for i := 0; i < n; i++ {
			if got := dmref.Unrand255(hl[pos-1], pos); got != raw[i] {
				r.Violation("model-mismatch", "dm.base256:255-state", fmt.Sprintf("Base 256 byte %d at codeword position %d un-randomises to %d, written %d", i, pos, got, raw[i]), map[string]interface{}{"n": n, "position": pos})
				return
			}
			pos++
		}
		r.TallyN("base256_positions_checked", int64(n))
		r.Max("base256_max_position", int64(pos-1))
	}
	r.Nontrivial("randomise")
}

func c08(c *fw.Ctx) {
	c.Rule("all 30 ECC 200 sizes x N seeded codeword vectors: ErrorCorrection_EncodeECC200 and DefaultPlacement vs dmref (Table 7, generator polynomials computed as prod(x-2^i), Annex F placement, interleave by total codeword position), the library decoder on dmref-built symbols (clean and with floor(ec/2) damaged codewords per block) must return the exact data codewords, the writer's 0x0 symbol vs dmref.BuildMatrix of the writer's own data codewords; encoder/decoder size tables and the 16 factor tables compared directly; pad (253-state) and Base-256 (255-state) randomisation at positions up to 1558; distinct = distinct (size, codeword vector / text)")
	c.Assume("dmref (harness/ref/dmref) is the transcription of ISO/IEC 16022 (anchored on the '123456' example and published table values in the start-up self-test)")
	c.Run("tables", func(r *fw.Rec) { c08Tables(r) })
	c.Run("randomise", func(r *fw.Rec) { c08Randomise(r) })
	reps := c.Pick(60, 5000)
	for si, s := range dmref.Symbols() {
		for k := 0; k < reps; k++ {
			s, k := s, k
			c.Run(fmt.Sprintf("construct/%d-%dx%d/%d", si, s.Rows, s.Cols, k), func(r *fw.Rec) { c08Construct(r, s) })
			c.Run(fmt.Sprintf("symbol/%d-%dx%d/%d", si, s.Rows, s.Cols, k), func(r *fw.Rec) { c08Symbol(r, s) })
		}
	}
	c.Exhaustive("the 30 ECC 200 symbol sizes; the 16 generator polynomials; pad positions 3..1558")
	c.Floor("encoder_symbol_entries_equal", 30)
	c.Floor("decoder_version_entries_equal", 30)
	c.Floor("generator_tables_equal", 16)
	c.Floor("ecc_vectors_equal", int64(30*reps*9/10))
	c.Floor("ecc_vectors_as_pieces_of_a_stream", int64(30*reps/4))
	c.Floor("placements_equal", int64(30*reps*9/10))
	c.Floor("decoder_reference_symbols_clean", int64(30*reps*8/10))
	c.Floor("decoder_reference_symbols_damaged", int64(30*reps*8/10))
	c.Floor("writer_matrices_equal", int64(30*reps/2))
	c.Floor("writer_matrices_equal_min_size_alone", int64(30*reps/3))
	c.Floor("pad_positions_checked", 1556)
	c.Floor("base256_positions_checked", 1000)
}
