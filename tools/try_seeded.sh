#!/bin/bash
# usage: tools/try_seeded.sh <patch.diff> <demo_test.go|-> <property> [more properties...]
# Validates a seeded change in a scratch worktree of /repo (never touches /repo itself):
#   1. applies, builds, runs the repository's own suite (must pass)
#   2. runs the demonstration with and without the change (must fail / pass)
#   3. runs the named checks (quick; thorough if quick misses) against the changed tree
# Prints one summary line per step; exit 0 if the primary check caught it.
set -u
export GOFLAGS=-mod=mod GOPROXY=off GOSUMDB=off GOTOOLCHAIN=local
patch=$(readlink -f "$1"); demo="$2"; shift 2
props=("$@")
wt=/tmp/seedwt.$$
git -C /repo worktree add -q "$wt" HEAD || exit 3
cleanup() { git -C /repo worktree remove --force "$wt" 2>/dev/null; rm -f "$wt.mod" "$wt.sum"; }
trap cleanup EXIT
cd "$wt"
if ! git apply "$patch"; then echo "RESULT apply=FAIL"; exit 3; fi
if ! go build ./... 2>/tmp/seed-build.$$; then echo "RESULT build=FAIL"; head -5 /tmp/seed-build.$$; rm -f /tmp/seed-build.$$; exit 3; fi
rm -f /tmp/seed-build.$$
if [ "${SKIP_SUITE:-0}" = 1 ]; then echo "RESULT suite=SKIPPED"; elif go test -vet=off -count=1 ./... >/tmp/seed-suite.$$ 2>&1; then echo "RESULT suite=PASS"; else echo "RESULT suite=FAIL"; grep -v "^ok\|no test files" /tmp/seed-suite.$$ | head -8; fi
rm -f /tmp/seed-suite.$$
if [ "$demo" != "-" ]; then
  demo=$(readlink -f "$demo")
  place=$(head -5 "$demo" | grep -o 'place in: *[^ ]*' | head -1 | sed 's/place in: *//')
  place=${place%/}; [ -z "$place" ] && place=.
  tname=$(grep -o 'func TestSeededDemo[0-9A-Za-z_]*' "$demo" | head -1 | sed 's/func //')
  race=""; grep -q -- "-race" "${demo%_test.go}.json" 2>/dev/null && race="-race"
  metaf=$(dirname "$demo")/meta$(basename "$demo" | grep -o '[0-9]*' | head -1).json
  [ -f "$metaf" ] && grep -q -- "-race" "$metaf" && race="-race"
  cp "$demo" "$place/zz_seeded_demo_test.go"
  if go test -vet=off -count=1 $race -run "^$tname\$" "./$place/" >/tmp/seed-demo.$$ 2>&1; then echo "RESULT demo_with_change=PASS(unexpected)"; else echo "RESULT demo_with_change=FAIL(expected)"; fi
  git apply -R "$patch"
  if go test -vet=off -count=1 $race -run "^$tname\$" "./$place/" >/tmp/seed-demo.$$ 2>&1; then echo "RESULT demo_without_change=PASS(expected)"; else echo "RESULT demo_without_change=FAIL(unexpected)"; tail -5 /tmp/seed-demo.$$; fi
  rm -f "$place/zz_seeded_demo_test.go" /tmp/seed-demo.$$
  git apply "$patch"
fi
sed "s#=> /repo#=> $wt#" /verif/harness/go.mod > "$wt.mod"; cp /repo/go.sum "$wt.sum"
cd /verif
rc=1
for p in "${props[@]}"; do
  out=$(VERIF_GOMOD="$wt.mod" ./check "$p" quick 2>&1); st=$?
  if [ $st -eq 1 ]; then
    echo "RESULT check=$p tier=quick CAUGHT: $(echo "$out" | grep -a -m1 '^VIOLATION' | cut -c1-260)"
    [ "$p" = "${props[0]}" ] && rc=0
  else
    echo "RESULT check=$p tier=quick exit=$st: $(echo "$out" | tail -1 | cut -c1-160)"
    [ "${QUICK_ONLY:-0}" = 1 ] && continue
    out=$(VERIF_GOMOD="$wt.mod" ./check "$p" thorough 2>&1); st=$?
    if [ $st -eq 1 ]; then
      echo "RESULT check=$p tier=thorough CAUGHT: $(echo "$out" | grep -a -m1 '^VIOLATION' | cut -c1-260)"
      [ "$p" = "${props[0]}" ] && rc=0
    else
      echo "RESULT check=$p tier=thorough exit=$st MISSED: $(echo "$out" | tail -1 | cut -c1-160)"
    fi
  fi
done
exit $rc
