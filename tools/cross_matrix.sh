#!/bin/bash
# usage: tools/cross_matrix.sh [id...]   (default: every seeded change not yet in the file)
# Runs every quick check against confirmed seeded changes (scratch worktrees; /repo untouched)
# and records in seeded/cross_matrix.txt which checks catch which changes.
cd /verif
export LC_ALL=C
ALL="C01 C02 C03 C04 C05 C06 C07 C08 C09 C10 C11 C12 C13 C14 C15 C16 C17 C18 C19 C20"
out=/verif/seeded/cross_matrix.txt; touch $out
ids="$@"
if [ -z "$ids" ]; then
  for d in seeded/C*-*/; do id=$(basename $d); grep -aq "^$id " $out || ids="$ids $id"; done
fi
for id in $ids; do
  d=seeded/$id
  res=$(SKIP_SUITE=1 QUICK_ONLY=1 nice -n 10 tools/try_seeded.sh $d/patch.diff - $ALL 2>&1 | grep -a '^RESULT check=')
  caught=$(echo "$res" | grep -a CAUGHT | sed 's/RESULT check=\([A-Z0-9]*\).*/\1/' | tr '\n' ' ')
  grep -av "^$id " $out > $out.tmp; mv $out.tmp $out
  echo "$id caught_by_quick: $caught" | tee -a $out
  sort -o $out $out
done
