//go:build verif

package main

import (
	"fmt"
	"strings"

	"github.com/makiuchi-d/gozxing"
	dmenc "github.com/makiuchi-d/gozxing/datamatrix/encoder"
	qrenc "github.com/makiuchi-d/gozxing/qrcode/encoder"

	"verifharness/fw"
	"verifharness/ref/dmref"
	"verifharness/ref/qrref"
)

// C13: smallest adequate symbol; forced version / size hints; capacity limits.

func init() { fw.Register("C13", c13) }

// c13QROne encodes n characters of mode at level l and checks the version.
//
//	forced == 0: automatic version must be MinVersion(n) (or refusal when none)
//	forced  > 0: version must be exactly `forced` when n fits it, refusal otherwise
func c13QROne(r *fw.Rec, mode qrref.Mode, l qrref.Level, n, forced int, viaWriter bool) bool {
	return c13QROneCS(r, mode, l, n, forced, viaWriter, "")
}

// c13QROneCS: cs != "" adds a CHARACTER_SET hint to numeric / alphanumeric content.  Digits and
// the 45-set do not depend on a character set, so the hint must not cost capacity: the lowest
// version that holds the content is the same with and without it.
func c13QROneCS(r *fw.Rec, mode qrref.Mode, l qrref.Level, n, forced int, viaWriter bool, cs string) bool {
	return c13QROneGS1(r, mode, l, n, forced, viaWriter, cs, nil)
}

// c13QRByteHinted: byte-mode content of n bytes under a CHARACTER_SET hint: the symbol carries a
// 12-bit ECI header (4-bit mode indicator + one-byte designator), and the lowest version is the
// standard's for 12 bits less.
func c13QRByteHinted(r *fw.Rec, l qrref.Level, n, forced int, viaWriter bool) bool {
	text, _, _ := qrPayload(r.Rng, qrref.Byte, n)
	hints := qrHints(forced, int(r.Rng.Intn(8)), "UTF-8")
	want := qrref.MinVersionWithHeader(n, qrref.Byte, l, 12)
	fits := want != 0
	if forced > 0 {
		fits = qrref.CapacityWithHeader(forced, l, qrref.Byte, 12) >= n
		want = forced
	}
	info := map[string]interface{}{"mode": "byte", "level": qrLevelName[l], "length": n, "forced_version": forced, "expected_version": want, "fits": fits, "charset_hint": "UTF-8"}
	r.Evals(1)
	got := 0
	var err error
	if viaWriter {
		hints[gozxing.EncodeHintType_ERROR_CORRECTION] = qrLibLevel[l]
		var bm *gozxing.BitMatrix
		bm, err = instQRWriter().Encode(text, gozxing.BarcodeFormat_QR_CODE, 0, 0, hints)
		if err == nil {
			got = (bm.GetWidth() - 8 - 17) / 4
		}
	} else {
		var code *qrenc.QRCode
		code, err = qrenc.Encoder_encode(text, qrLibLevel[l], hints)
		if err == nil {
			got = code.GetVersion().GetVersionNumber()
		}
	}
	switch {
	case fits && err != nil:
		r.Violation("model-mismatch", "qr.version:refused-fitting-content:hinted-byte", fmt.Sprintf("%d bytes under a CHARACTER_SET hint at level %s (forced version %d) refused: %v; with the 12-bit ECI header the standard admits version %d", n, qrLevelName[l], forced, err, want), info)
		return false
	case !fits && err == nil:
		r.Violation("model-mismatch", "qr.version:accepted-beyond-capacity:hinted-byte", fmt.Sprintf("%d bytes under a CHARACTER_SET hint at level %s (forced version %d) accepted as version %d", n, qrLevelName[l], forced, got), info)
		return false
	case fits && got != want:
		r.Violation("model-mismatch", "qr.version:not-smallest-or-not-forced:hinted-byte", fmt.Sprintf("%d bytes under a CHARACTER_SET hint at level %s (forced version %d): version %d, expected %d", n, qrLevelName[l], forced, got, want), info)
		return false
	}
	r.Tally("qr_hinted_byte_boundaries")
	return true
}

// c13QROneGS1: gs1 != nil adds a GS1_FORMAT hint with that value.  A false value (bool or
// string) leaves the symbol a plain one with the plain capacity; a true value puts the 4-bit
// FNC1-in-first-position indicator before the segment, and the capacity is the standard's for
// 4 bits less.
func c13QROneGS1(r *fw.Rec, mode qrref.Mode, l qrref.Level, n, forced int, viaWriter bool, cs string, gs1 interface{}) bool {
	text, _, charset := qrPayload(r.Rng, mode, n)
	if cs != "" && (mode == qrref.Numeric || mode == qrref.Alphanumeric) {
		charset = cs
	}
	hints := qrHints(forced, int(r.Rng.Intn(8)), charset)
	header := 0
	if gs1 != nil {
		hints[gozxing.EncodeHintType_GS1_FORMAT] = gs1
		if b, ok := gs1.(bool); ok && b {
			header = 4
		}
		if s, ok := gs1.(string); ok && (s == "true" || s == "True" || s == "TRUE") {
			header = 4
		}
	}
	want := qrref.MinVersionWithHeader(n, mode, l, header)
	fits := want != 0
	if forced > 0 {
		fits = qrref.CapacityWithHeader(forced, l, mode, header) >= n
		want = forced
	}
	info := map[string]interface{}{"mode": qrModeName[mode], "level": qrLevelName[l], "length": n, "forced_version": forced, "expected_version": want, "fits": fits, "charset_hint": charset, "gs1_format_hint": fmt.Sprintf("%T(%v)", gs1, gs1)}
	r.Evals(1)
	got := 0
	var err error
	if viaWriter {
		hints[gozxing.EncodeHintType_ERROR_CORRECTION] = qrLibLevel[l]
		if l == qrref.L && r.Rng.Bool() {
			// level L is the writer's default: the same hints without naming it
			delete(hints, gozxing.EncodeHintType_ERROR_CORRECTION)
			r.Tally("qr_writer_default_level")
		}
		var bm *gozxing.BitMatrix
		bm, err = instQRWriter().Encode(text, gozxing.BarcodeFormat_QR_CODE, 0, 0, hints)
		if err == nil {
			d := bm.GetWidth() - 8
			if bm.GetWidth() != bm.GetHeight() || (d-17)%4 != 0 {
				r.Violation("model-mismatch", "qr.writer:dimension-not-17+4v+8", fmt.Sprintf("writer output %dx%d at size 0x0, margin 4", bm.GetWidth(), bm.GetHeight()), info)
				return false
			}
			got = (d - 17) / 4
		}
	} else {
		var code *qrenc.QRCode
		code, err = qrenc.Encoder_encode(text, qrLibLevel[l], hints)
		if err == nil {
			got = code.GetVersion().GetVersionNumber()
		}
	}
	switch {
	case fits && err != nil:
		r.Violation("model-mismatch", "qr.version:refused-fitting-content", fmt.Sprintf("%d %s characters at level %s (forced version %d) refused: %v; standard capacity admits version %d", n, qrModeName[mode], qrLevelName[l], forced, err, want), info)
		return false
	case !fits && err == nil:
		r.Violation("model-mismatch", "qr.version:accepted-beyond-capacity", fmt.Sprintf("%d %s characters at level %s (forced version %d) accepted as version %d; beyond the standard's capacity", n, qrModeName[mode], qrLevelName[l], forced, got), info)
		return false
	case fits && got != want:
		r.Violation("model-mismatch", "qr.version:not-smallest-or-not-forced", fmt.Sprintf("%d %s characters at level %s (forced version %d): version %d, expected %d", n, qrModeName[mode], qrLevelName[l], forced, got, want), info)
		return false
	}
	if fits {
		r.Tally("qr_version_as_expected")
	} else {
		r.Tally("qr_refused_as_expected")
	}
	return true
}

// c13DMLookup compares SymbolInfo_Lookup with the reference for one query.
func c13DMLookup(r *fw.Rec, n, shape int, min, max *[2]int) bool {
	var minD, maxD *gozxing.Dimension
	minR, minC, maxR, maxC := 0, 0, 0, 0
	if min != nil {
		minD, _ = gozxing.NewDimension(min[1], min[0]) // width = cols, height = rows
		minR, minC = min[0], min[1]
	}
	if max != nil {
		maxD, _ = gozxing.NewDimension(max[1], max[0])
		maxR, maxC = max[0], max[1]
	}
	want, ok := dmref.Lookup(n, shape, minR, minC, maxR, maxC)
	got, err := dmenc.SymbolInfo_Lookup(n, dmShape(shape), minD, maxD, true)
	info := map[string]interface{}{"codewords": n, "shape": dmShapeName[shape], "min_rows_cols": min, "max_rows_cols": max}
	r.Evals(1)
	if ok != (err == nil) {
		r.Violation("model-mismatch", "dm.lookup:admissibility", fmt.Sprintf("SymbolInfo_Lookup(%d, %s, min %v, max %v): err=%v, reference admissible=%v (%dx%d)", n, dmShapeName[shape], min, max, err, ok, want.Rows, want.Cols), info)
		return false
	}
	if ok {
		if got.GetSymbolHeight() != want.Rows || got.GetSymbolWidth() != want.Cols || got.GetDataCapacity() != want.DataCW || got.GetErrorCodewords() != want.ECCW {
			r.Violation("model-mismatch", "dm.lookup:not-first-admissible", fmt.Sprintf("SymbolInfo_Lookup(%d, %s, min %v, max %v) = %dx%d (%d/%d), reference %dx%d (%d/%d)", n, dmShapeName[shape], min, max, got.GetSymbolHeight(), got.GetSymbolWidth(), got.GetDataCapacity(), got.GetErrorCodewords(), want.Rows, want.Cols, want.DataCW, want.ECCW), info)
			return false
		}
		r.Tally("dm_lookup_symbol_as_expected")
	} else {
		r.Tally("dm_lookup_refused_as_expected")
	}
	return true
}

// c13DMWriter encodes 2n digits (n codewords in ASCII digit pairs) and checks the 0x0 output size.
func c13DMWriter(r *fw.Rec, n, shape int, min, max *[2]int) bool {
	digits := make([]byte, 2*n)
	for i := range digits {
		digits[i] = byte('0' + r.Rng.Intn(10))
	}
	hints := map[gozxing.EncodeHintType]interface{}{}
	if shape != 0 {
		hints[gozxing.EncodeHintType_DATA_MATRIX_SHAPE] = dmShape(shape)
	}
	minR, minC, maxR, maxC := 0, 0, 0, 0
	if min != nil {
		d, _ := gozxing.NewDimension(min[1], min[0])
		hints[gozxing.EncodeHintType_MIN_SIZE] = d
		minR, minC = min[0], min[1]
	}
	if max != nil {
		d, _ := gozxing.NewDimension(max[1], max[0])
		hints[gozxing.EncodeHintType_MAX_SIZE] = d
		maxR, maxC = max[0], max[1]
	}
	want, ok := dmref.Lookup(n, shape, minR, minC, maxR, maxC)
	info := map[string]interface{}{"digits": 2 * n, "codewords": n, "shape": dmShapeName[shape], "min_rows_cols": min, "max_rows_cols": max}
	var bm *gozxing.BitMatrix
	var err error
	msg, stack, panicked := fw.Guard(func() {
		bm, err = instDMWriter().Encode(string(digits), gozxing.BarcodeFormat_DATA_MATRIX, 0, 0, hints)
	})
	r.Evals(1)
	if panicked {
		r.Violation("panic", "dm.writer:panic:"+fw.PanicSite(stack), fmt.Sprintf("DataMatrixWriter.Encode(%d digits, %s, min %v, max %v) panicked: %s", 2*n, dmShapeName[shape], min, max, msg), info)
		return false
	}
	if ok != (err == nil) {
		r.Violation("model-mismatch", "dm.writer:admissibility", fmt.Sprintf("DataMatrixWriter.Encode(%d digits = %d codewords, %s, min %v, max %v): err=%v, reference admissible=%v", 2*n, n, dmShapeName[shape], min, max, err, ok), info)
		return false
	}
	if ok {
		if bm.GetHeight() != want.Rows || bm.GetWidth() != want.Cols {
			r.Violation("model-mismatch", "dm.writer:not-first-admissible", fmt.Sprintf("DataMatrixWriter.Encode(%d digits = %d codewords, %s, min %v, max %v) = %dx%d, reference %dx%d", 2*n, n, dmShapeName[shape], min, max, bm.GetHeight(), bm.GetWidth(), want.Rows, want.Cols), info)
			return false
		}
		r.Tally("dm_writer_symbol_as_expected")
	} else {
		r.Tally("dm_writer_refused_as_expected")
	}
	return true
}

// c13DMBinary encodes n characters U+0080..U+00FF (one Base 256 run from the first character to
// the end of the message) and checks the symbol against the smallest that holds latch + length
// field + n: the length field is one codeword for runs up to 249 and for a run that ends exactly
// at the end of the symbol, two codewords otherwise (ISO 16022 5.2.9.2).
func c13DMBinary(r *fw.Rec, n, shape int) bool {
	rs := make([]rune, n)
	for i := range rs {
		rs[i] = rune(0x80 + r.Rng.Intn(0x80))
	}
	hints := map[gozxing.EncodeHintType]interface{}{}
	if shape != 0 {
		hints[gozxing.EncodeHintType_DATA_MATRIX_SHAPE] = dmShape(shape)
	}
	var want dmref.Symbol
	ok := false
	for _, s := range dmref.Symbols() {
		if (shape == 1 && s.Rows != s.Cols) || (shape == 2 && s.Rows == s.Cols) {
			continue
		}
		if s.DataCW == n+2 || (n <= 249 && s.DataCW >= n+2) || s.DataCW >= n+3 {
			want, ok = s, true
			break
		}
	}
	info := map[string]interface{}{"binary_bytes": n, "shape": dmShapeName[shape]}
	var bm *gozxing.BitMatrix
	var err error
	msg, stack, panicked := fw.Guard(func() {
		bm, err = instDMWriter().Encode(string(rs), gozxing.BarcodeFormat_DATA_MATRIX, 0, 0, hints)
	})
	r.Evals(1)
	if panicked {
		r.Violation("panic", "dm.writer:panic:"+fw.PanicSite(stack), fmt.Sprintf("DataMatrixWriter.Encode(%d bytes >= 0x80, %s) panicked: %s", n, dmShapeName[shape], msg), info)
		return false
	}
	if ok != (err == nil) {
		r.Violation("model-mismatch", "dm.writer:binary:admissibility", fmt.Sprintf("DataMatrixWriter.Encode(%d bytes >= 0x80, %s): err=%v, reference admissible=%v", n, dmShapeName[shape], err, ok), info)
		return false
	}
	if ok {
		if bm.GetHeight() != want.Rows || bm.GetWidth() != want.Cols {
			r.Violation("model-mismatch", "dm.writer:binary:not-smallest", fmt.Sprintf("DataMatrixWriter.Encode(%d bytes >= 0x80, %s) = %dx%d, smallest symbol holding the Base 256 run is %dx%d (%d codewords)", n, dmShapeName[shape], bm.GetHeight(), bm.GetWidth(), want.Rows, want.Cols, want.DataCW), info)
			return false
		}
		r.Tally("dm_binary_symbol_as_expected")
		if want.DataCW == n+2 {
			r.Tally("dm_binary_exact_fill")
		}
	} else {
		r.Tally("dm_binary_refused_as_expected")
	}
	return true
}

// c13Classes: alphabets that steer the look-ahead into one encodation each.
var c13Classes = []struct{ name, alpha string }{
	{"x12", "ABCDEFGHIJKLMNOPQRSTUVWXYZ0123456789 *>\r"},
	{"x12-few-terminators", "ABCDEFGHIJKLMNOPQRSTUVWXYZ0123456789*"},
	{"edifact", "ABCDEFGHIJKLMNOPQRSTUVWXYZ !\"#$%&'()+,-./:;<=?@[\\]^"},
	{"edifact-punct", "^@[]?!#$%&"},
	{"c40", "ABCDEFGHIJKLMNOPQRSTUVWXYZ 0123456789"},
	{"text", "abcdefghijklmnopqrstuvwxyz 0123456789"},
	{"mixed", "ABCabc012 *>^,.-"},
}

// c13DMContent: content of one character class (optionally inside a 05/06 macro envelope),
// every length, through the library's encodation.  Whatever encodation it chooses, the symbol
// must be the smallest admissible one that holds the content: if the library's own codeword
// stream, with end-of-data codewords that the standard makes unnecessary at the end of a symbol
// removed (candidates: the last 0..3 codewords dropped, or the one before the last dropped),
// fills a smaller admissible symbol exactly and the independent ISO 16022 decoder reads the
// same message from it, the content fits that smaller symbol.
func c13DMContent(r *fw.Rec, text string, shape int, class string) bool {
	var hl []byte
	var err error
	msg, stack, panicked := fw.Guard(func() { hl, err = dmenc.EncodeHighLevel(text, dmShape(shape), nil, nil) })
	r.Evals(1)
	info := map[string]interface{}{"text": text, "class": class, "shape": dmShapeName[shape]}
	if panicked {
		r.Violation("panic", "dm.encode:panic:"+fw.PanicSite(stack), fmt.Sprintf("EncodeHighLevel(%q) panicked: %s", trunc(text, 80), msg), info)
		return false
	}
	if err != nil {
		r.Tally("dm_content_refused")
		return true
	}
	capS := len(hl)
	chosen, ok := dmref.Lookup(capS, shape, 0, 0, 0, 0)
	if !ok || chosen.DataCW != capS {
		r.Violation("model-mismatch", "dm.content:stream-length-is-no-symbol-capacity", fmt.Sprintf("EncodeHighLevel(%q, %s) returned %d codewords, which is not the capacity of an admissible symbol", trunc(text, 80), dmShapeName[shape], capS), info)
		return false
	}
	full, derr := dmref.DecodeCodewords(hl)
	if derr != nil || full != text {
		// C02's business; here only streams the reference reads back are judged
		r.Tally("dm_content_stream_not_read_back_by_reference")
		return true
	}
	// unpadded length: the shortest prefix whose standard padding reproduces the stream
	p := capS
	for q := capS - 1; q >= 1; q-- {
		if string(dmref.PadTo(hl[:q], capS)) == string(hl) {
			p = q
		}
	}
	info["codewords"], info["unpadded"], info["symbol"] = capS, p, fmt.Sprintf("%dx%d", chosen.Rows, chosen.Cols)
	// (1) the symbol is the first admissible one for the library's own codeword count
	for _, small := range dmref.Symbols() {
		if small.DataCW >= capS || small.DataCW < p || (shape == 1 && small.Rect) || (shape == 2 && !small.Rect) {
			continue
		}
		if got, e := dmref.DecodeCodewords(dmref.PadTo(hl[:p], small.DataCW)); e == nil && got == text {
			info["smaller_symbol"] = fmt.Sprintf("%dx%d", small.Rows, small.Cols)
			r.Violation("model-mismatch", "dm.content:not-first-admissible-for-own-codewords:"+class, fmt.Sprintf("%q (%s) is encoded into %dx%d (%d codewords) although only %d are used before padding %v: %dx%d (%d) holds them and reads back the same", trunc(text, 60), dmShapeName[shape], chosen.Rows, chosen.Cols, capS, p, hl[:p], small.Rows, small.Cols, small.DataCW), info)
			return false
		}
	}
	// (2) ISO 16022 5.2.5.2 / 5.2.7.2: when one character remains at the end of a C40 / Text /
	// X12 run and one codeword remains in the symbol, the character is ASCII encoded WITHOUT an
	// unlatch.  Charged only where the standard says so and nothing else interferes: no macro
	// envelope, the stream ends "unlatch, one ASCII codeword", the last character belongs to
	// the basic set of the run that was unlatched (so the run was not left for its sake), and
	// without the unlatch the stream fills a smaller admissible symbol exactly.
	if !strings.HasPrefix(text, "[)>\x1e") && p >= 3 && len(text) > 0 {
		last := text[len(text)-1]
		if _, at, mode, e := dmref.DecodeCodewordsInfo(hl[:p]); e == nil && at == p-2 && hl[p-1] == last+1 && last < 128 {
			native := last == ' ' || (last >= '0' && last <= '9')
			switch mode {
			case dmref.ModeC40:
				native = native || (last >= 'A' && last <= 'Z')
			case dmref.ModeText:
				native = native || (last >= 'a' && last <= 'z')
			case dmref.ModeX12:
				native = native || (last >= 'A' && last <= 'Z') || last == '\r' || last == '*' || last == '>'
			}
			cand := append(append([]byte{}, hl[:p-2]...), hl[p-1])
			if small, ok := dmref.Lookup(len(cand), shape, 0, 0, 0, 0); native && ok && small.DataCW == len(cand) && small.DataCW < capS {
				if got, e := dmref.DecodeCodewords(cand); e == nil && got == text {
					info["smaller_symbol"] = fmt.Sprintf("%dx%d", small.Rows, small.Cols)
					r.Violation("model-mismatch", "dm.content:unlatch-before-the-last-character-at-the-end-of-a-symbol:"+class, fmt.Sprintf("%q (%s) ends ... %v (unlatch, then the last character in ASCII) and takes %dx%d; one character and one codeword remained in %dx%d, where the standard encodes it in ASCII without the unlatch", trunc(text, 60), dmShapeName[shape], hl[maxInt(0, p-5):p], chosen.Rows, chosen.Cols, small.Rows, small.Cols), info)
					return false
				}
			}
			r.Tally("dm_content_streams_ending_unlatch_then_one_ascii_codeword")
		}
	}
	// (3) measured, not charged: end-of-data codewords the standard makes unnecessary at the
	// end of a symbol (upstream's look-ahead does not always exploit them)
	var cands [][]byte
	for k := 1; k <= 3 && p-k >= 1; k++ {
		cands = append(cands, append([]byte{}, hl[:p-k]...))
	}
	if p >= 3 {
		cands = append(cands, append(append([]byte{}, hl[:p-2]...), hl[p-1]))
	}
	for _, cand := range cands {
		small, ok := dmref.Lookup(len(cand), shape, 0, 0, 0, 0)
		if !ok || small.DataCW != len(cand) || small.DataCW >= capS {
			continue
		}
		if got, e := dmref.DecodeCodewords(cand); e == nil && got == text {
			r.Tally("dm_content_smaller_symbol_possible_with_implied_unlatch_not_charged")
			break
		}
	}
	r.Tally("dm_content_no_smaller_symbol_holds_the_stream")
	if p == capS {
		r.Tally("dm_content_symbol_exactly_full")
	}
	return true
}

func c13(c *fw.Ctx) {
	c.Rule("QR: for every (mode, level, version) the lengths cap(v) and cap(v)+1 with automatic version, and forced versions v (exact), v-1 (refused) and v+1 (honoured); the same boundaries for numeric / alphanumeric content under a CHARACTER_SET hint (which must not cost capacity) and for byte content under the hint (capacity for 12 bits less); level L through the writer also as its unnamed default; thorough: every length 1..cap(40)+1 for all 16 (mode, level) pairs; observed through Encoder_encode's version and through the writer's 0x0 output dimension; expected version from qrref capacities (ISO 18004 tables). Data Matrix: every codeword count 1..1559 x 3 shapes through SymbolInfo_Lookup and (as digit strings) through the writer's 0x0 output size, and (min, max) dimension pairs drawn from the 30 sizes (+-1), compared with dmref's Table 7 in capacity order; distinct = distinct (kind, mode/shape, level, length, hints)")
	c.Assume("payloads select their mode unambiguously (digits / 45-set with a letter / UTF-8 with a lower-case letter / Shift_JIS double-byte with the Shift_JIS hint); the mask is forced to skip the penalty search")
	// --- published figures
	c.Run("published", func(r *fw.Rec) {
		pub := map[qrref.Mode]int{qrref.Numeric: 7089, qrref.Alphanumeric: 4296, qrref.Byte: 2953, qrref.Kanji: 1817}
		for _, m := range qrAllModes {
			if qrref.Capacity(40, qrref.L, m) != pub[m] {
				r.Inconclusive("reference capacity disagrees with the published 40-L figure")
				return
			}
			if !c13QROne(r, m, qrref.L, pub[m], 0, false) || !c13QROne(r, m, qrref.L, pub[m]+1, 0, false) {
				return
			}
		}
		s, _ := dmref.Lookup(1558, 0, 0, 0, 0, 0)
		if s.Rows != 144 {
			r.Inconclusive("reference does not place 1558 codewords in 144x144")
			return
		}
		if !c13DMLookup(r, 1558, 0, nil, nil) || !c13DMLookup(r, 1559, 0, nil, nil) || !c13DMWriter(r, 1558, 0, nil, nil) || !c13DMWriter(r, 1559, 0, nil, nil) {
			return
		}
		r.Tally("published_figures_confirmed")
		r.Nontrivial("published")
		r.Sample(map[string]interface{}{"kind": "published figures", "qr_40L": "7089/4296/2953/1817 accepted, +1 refused", "dm": "1558 codewords -> 144x144, 1559 refused"})
	})
	// --- QR boundaries
	for _, mode := range qrAllModes {
		for _, l := range qrAllLevels {
			for v := 1; v <= 40; v++ {
				mode, l, v := mode, l, v
				c.Run(fmt.Sprintf("qr/bound/%s/%s/%d", qrModeName[mode], qrLevelName[l], v), func(r *fw.Rec) {
					capv := qrref.Capacity(v, l, mode)
					if capv < 1 {
						return
					}
					viaWriter := (v+int(l))%5 == 0
					ok := c13QROne(r, mode, l, capv, 0, viaWriter) && // auto: lands on v
						c13QROne(r, mode, l, capv+1, 0, viaWriter) && // auto: v+1, or refused at 40
						c13QROne(r, mode, l, capv, v, false) && // forced exact
						c13QROne(r, mode, l, capv+1, v, false) // forced too small: refused
					if ok && v < 40 {
						ok = c13QROne(r, mode, l, capv, v+1, false) // forced larger: honoured
					}
					if ok && v > 1 {
						ok = c13QROne(r, mode, l, 1+r.Rng.Intn(capv), v, viaWriter)
					}
					if ok && mode == qrref.Byte {
						if capH := qrref.CapacityWithHeader(v, l, mode, 12); capH >= 1 {
							ok = c13QRByteHinted(r, l, capH, 0, viaWriter) && c13QRByteHinted(r, l, capH+1, 0, false) && c13QRByteHinted(r, l, capH, v, false) && c13QRByteHinted(r, l, capH+1, v, false)
							if ok && capH > 3 {
								ok = c13QRByteHinted(r, l, capH-1-r.Rng.Intn(3), 0, false)
							}
						}
					}
					if ok && (mode == qrref.Numeric || mode == qrref.Alphanumeric) {
						cs := []string{"UTF-8", "ISO-8859-1", "Shift_JIS", "windows-1252", "ASCII"}[(v+int(l))%5]
						ok = c13QROneCS(r, mode, l, capv, 0, viaWriter, cs) && c13QROneCS(r, mode, l, capv+1, 0, false, cs) && c13QROneCS(r, mode, l, capv, v, false, cs)
						if ok {
							r.Tally("qr_hinted_non_byte_boundaries")
						}
						// GS1_FORMAT: false values cost nothing, true values cost the 4-bit indicator
						off := []interface{}{false, "false", "False", "FALSE"}[(v+int(l))%4]
						on := []interface{}{true, "true", "True", true}[(v+2*int(l))%4]
						capg := qrref.CapacityWithHeader(v, l, mode, 4)
						ok = ok && c13QROneGS1(r, mode, l, capv, 0, viaWriter, "", off) && c13QROneGS1(r, mode, l, capv+1, 0, false, "", off) && c13QROneGS1(r, mode, l, capv, v, false, "", off)
						if ok && capg >= 1 {
							ok = c13QROneGS1(r, mode, l, capg, 0, viaWriter, "", on) && c13QROneGS1(r, mode, l, capg+1, 0, false, "", on) && c13QROneGS1(r, mode, l, capg, v, false, "", on) && c13QROneGS1(r, mode, l, capg+1, v, false, "", on)
						}
						if ok {
							r.Tally("qr_gs1_hint_boundaries")
						}
					}
					if ok {
						r.Nontrivial(fmt.Sprintf("qr/%d/%d/%d", mode, l, v))
						if v == 10 && l == qrref.M && mode == qrref.Alphanumeric {
							r.Sample(map[string]interface{}{"kind": "qr boundary", "mode": qrModeName[mode], "level": qrLevelName[l], "version": v, "capacity": capv, "lengths": []int{capv, capv + 1}})
						}
					}
				})
			}
		}
	}
	c.Exhaustive("QR capacity boundaries cap(v), cap(v)+1 for all 4 modes x 4 levels x 40 versions")
	if !c.Quick() {
		for _, mode := range qrAllModes {
			for _, l := range qrAllLevels {
				top := qrref.Capacity(40, l, mode) + 1
				for lo := 1; lo <= top; lo += 100 {
					mode, l, lo := mode, l, lo
					c.Run(fmt.Sprintf("qr/all/%s/%s/%d", qrModeName[mode], qrLevelName[l], lo), func(r *fw.Rec) {
						for n := lo; n < lo+100 && n <= top; n++ {
							if !c13QROne(r, mode, l, n, 0, false) {
								return
							}
							r.NontrivialH(uint64(mode)<<40 | uint64(l)<<32 | uint64(n))
						}
					})
				}
			}
		}
		c.Exhaustive("QR: every content length 1..capacity(40)+1 for all 16 (mode, level) pairs")
	}
	// --- Data Matrix: every codeword count x shape
	for shape := 0; shape < 3; shape++ {
		for lo := 1; lo <= 1559; lo += 60 {
			shape, lo := shape, lo
			c.Run(fmt.Sprintf("dm/count/%s/%d", dmShapeName[shape], lo), func(r *fw.Rec) {
				for n := lo; n < lo+60 && n <= 1559; n++ {
					if !c13DMLookup(r, n, shape, nil, nil) {
						return
					}
					// the writer path costs more: boundaries always, the rest sampled in quick
					s, ok := dmref.Lookup(n, shape, 0, 0, 0, 0)
					boundary := !ok || s.DataCW == n || n == 1
					if prev, okp := dmref.Lookup(n-1, shape, 0, 0, 0, 0); n > 1 && okp && ok && prev.DataCW != s.DataCW {
						boundary = true
					}
					if boundary || !c.Quick() || r.Rng.Intn(3) == 0 {
						if !c13DMWriter(r, n, shape, nil, nil) {
							return
						}
					}
					r.NontrivialH(0xD<<60 | uint64(shape)<<32 | uint64(n))
				}
			})
		}
	}
	c.Exhaustive("Data Matrix codeword counts 1..1559 x {none, square, rectangle} through SymbolInfo_Lookup")
	// --- Data Matrix: Base 256 runs of every length (the length field is 1 or 2 codewords)
	for shape := 0; shape < 3; shape++ {
		for lo := 4; lo <= 1558; lo += 40 {
			shape, lo := shape, lo
			c.Run(fmt.Sprintf("dm/binary/%s/%d", dmShapeName[shape], lo), func(r *fw.Rec) {
				for n := lo; n < lo+40 && n <= 1558; n++ {
					exact := false
					for _, s := range dmref.Symbols() {
						if d := s.DataCW - n; d >= 1 && d <= 4 {
							exact = true
						}
					}
					if exact || !c.Quick() || r.Rng.Intn(8) == 0 {
						if !c13DMBinary(r, n, shape) {
							return
						}
						r.NontrivialH(0xB<<60 | uint64(shape)<<32 | uint64(n))
					}
				}
			})
		}
	}
	// --- Data Matrix: content of every encodation class and length
	nrep := c.Pick(3, 150)
	for ci := range c13Classes {
		for macro := 0; macro < 3; macro++ {
			ci, macro := ci, macro
			c.Run(fmt.Sprintf("dm/content/%s/%d", c13Classes[ci].name, macro), func(r *fw.Rec) {
				cl := c13Classes[ci]
				for n := 1; n <= 90; n++ {
					for rep := 0; rep < nrep; rep++ {
						b := make([]byte, n)
						for i := range b {
							b[i] = cl.alpha[r.Rng.Intn(len(cl.alpha))]
						}
						text := string(b)
						if macro > 0 {
							text = fmt.Sprintf("[)>\x1e%02d\x1d", 4+macro) + text + "\x1e\x04"
						}
						shape := r.Rng.Intn(3)
						if !c13DMContent(r, text, shape, cl.name) {
							return
						}
						r.NontrivialH(hash64s("dmc"+text) ^ uint64(shape))
					}
				}
			})
		}
	}
	// --- Data Matrix: (min, max) pairs from the size list
	syms := dmref.Symbols()
	npairs := 0
	for i := range syms {
		for j := range syms {
			i, j := i, j
			npairs++
			c.Run(fmt.Sprintf("dm/minmax/%d/%d", i, j), func(r *fw.Rec) {
				rng := r.Rng
				for rep := 0; rep < 6; rep++ {
					min := &[2]int{syms[i].Rows, syms[i].Cols}
					max := &[2]int{syms[j].Rows, syms[j].Cols}
					switch rep {
					case 1:
						min = nil
					case 2:
						max = nil
					case 3:
						min[0] += rng.Intn(3) - 1
						min[1] += rng.Intn(3) - 1
					case 4:
						max[0] += rng.Intn(3) - 1
						max[1] += rng.Intn(3) - 1
					}
					shape := rng.Intn(3)
					var n int
					if ref, ok := dmref.Lookup(1, shape, valOr0(min, 0), valOr0(min, 1), valOr0(max, 0), valOr0(max, 1)); ok && rng.Intn(3) > 0 {
						// around the capacity of the first admissible symbol and of later ones
						n = ref.DataCW + rng.Intn(3) - 1
						if rng.Bool() {
							n = 1 + rng.Intn(1559)
						}
					} else {
						n = 1 + rng.Intn(1559)
					}
					if n < 1 {
						n = 1
					}
					if !c13DMLookup(r, n, shape, min, max) {
						return
					}
					if rep%2 == 0 {
						if !c13DMWriter(r, n, shape, min, max) {
							return
						}
					}
				}
				r.Nontrivial(fmt.Sprintf("dm/minmax/%d/%d", i, j))
				if i == 5 && j == 20 {
					r.Sample(map[string]interface{}{"kind": "dm min/max", "min_rows_cols": []int{syms[i].Rows, syms[i].Cols}, "max_rows_cols": []int{syms[j].Rows, syms[j].Cols}})
				}
			})
		}
	}
	c.Exhaustive("Data Matrix (min, max) pairs over the 30 sizes: all 900")
	c.Floor("qr_version_as_expected", 1500)
	c.Floor("qr_hinted_non_byte_boundaries", 250)
	c.Floor("qr_gs1_hint_boundaries", 250)
	c.Floor("qr_hinted_byte_boundaries", 600)
	c.Floor("qr_writer_default_level", 20)
	c.Floor("qr_refused_as_expected", 300)
	c.Floor("dm_lookup_symbol_as_expected", 3000)
	c.Floor("dm_writer_symbol_as_expected", 300)
	c.Floor("dm_writer_refused_as_expected", 10)
	c.Floor("dm_binary_symbol_as_expected", 200)
	c.Floor("dm_content_no_smaller_symbol_holds_the_stream", 4000)
	c.Floor("dm_content_symbol_exactly_full", 300)
	c.Floor("dm_binary_exact_fill", 20)
	c.Floor("dm_binary_refused_as_expected", 3)
	c.Floor("published_figures_confirmed", 1)
}

func valOr0(p *[2]int, i int) int {
	if p == nil {
		return 0
	}
	if p[i] < 0 {
		return 0
	}
	return p[i]
}
