#!/usr/bin/env python3
"""usage: tools/asbuilt_table.py <sweep log>  -- refresh the evals / wall columns of DESIGN.md section 5a
from a sweep log with lines '== seed 1 Cxx: OK ... evaluations=N ... wall=Ts' and '== thorough Cxx: OK ...'."""
import re, sys
log = open(sys.argv[1], errors='replace').read()
def fmt(n):
    n = int(n)
    if n >= 10_000_000: return f'{n/1e6:.0f} M'
    if n >= 1_000_000: return f'{n/1e6:.1f} M'
    if n >= 10_000: return f'{n/1e3:.0f} k'
    if n >= 1_000: return f'{n/1e3:.1f} k'
    return str(n)
q, t = {}, {}
for m in re.finditer(r'== seed (\d+) (C\d\d): OK .*?evaluations=(\d+).*?wall=([\d.]+)s', log):
    q.setdefault(m.group(2), []).append((int(m.group(3)), float(m.group(4))))
for m in re.finditer(r'== thorough (C\d\d): OK .*?evaluations=(\d+).*?wall=([\d.]+)s', log):
    t[m.group(1)] = (int(m.group(2)), float(m.group(3)))
p = '/verif/DESIGN.md'
s = open(p).read()
out = []
for line in s.split('\n'):
    m = re.match(r'\| (C\d\d) \| ([^|]*) \| ([^|]*) \| ([^|]*) \| (.*) \|$', line)
    if m and m.group(1) in q and m.group(1) in t and 'worker' in m.group(2) or (m and m.group(1) == 'C18' and m.group(1) in q):
        pid = m.group(1)
        ev = max(e for e, _ in q[pid]); ws = [w for _, w in q[pid]]
        qs = f'{fmt(ev)} / {min(ws):.0f}-{max(ws):.0f} s'
        ts = m.group(4)
        if pid in t:
            te, tw = t[pid]
            ts = f'{fmt(te)} / {tw:.0f} s' if tw < 120 else f'{fmt(te)} / {tw/60:.0f} min'
        line = f'| {pid} | {m.group(2)} | {qs} | {ts} | {m.group(5)} |'
    out.append(line)
open(p, 'w').write('\n'.join(out))
print('updated', len(q), 'quick and', len(t), 'thorough entries')
