//go:build verif

package main

import (
	"fmt"

	"github.com/makiuchi-d/gozxing"

	"verifharness/fw"
)

// C09 addition: an upside-down 1-D symbol must be read exactly as the upright one is read
// under the SAME hints (a steering hint such as RETURN_CODABAR_START_END or ALLOWED_LENGTHS,
// together with a result-point callback) - the reader retries the row reversed with a
// rebuilt hint map, and that rebuild must not drop what the caller asked for.
func c09HintsCase(r *fw.Rec, n int) {
	rng := r.Rng
	for i := 0; i < n; i++ {
		var ws *writerSpec
		var content, class string
		hints := map[gozxing.DecodeHintType]interface{}{}
		calls := 0
		hints[gozxing.DecodeHintType_NEED_RESULT_POINT_CALLBACK] = gozxing.ResultPointCallback(func(p gozxing.ResultPoint) { calls++ })
		switch rng.Intn(4) {
		case 0: // Codabar, guards returned
			ws, class = writerByName("CODABAR"), "codabar-start-end"
			g := "ABCD"
			content = string(g[rng.Intn(4)]) + fromAlphabet(rng, "0123456789-$", 2+rng.Intn(8)) + string(g[rng.Intn(4)])
			hints[gozxing.DecodeHintType_RETURN_CODABAR_START_END] = true
		case 1: // ITF with a length outside the default allowed lengths
			ws, class = writerByName("ITF"), "itf-allowed-lengths"
			content = digitsN(rng, 4)
			hints[gozxing.DecodeHintType_ALLOWED_LENGTHS] = []int{4}
		case 2: // Code 128 (no steering effect expected, but the hint map is rebuilt all the same)
			ws, class = writerByName("CODE_128"), "code128-assume-gs1"
			content = fromAlphabet(rng, "ABCDEFGHIJ0123456789", 3+rng.Intn(8))
			hints[gozxing.DecodeHintType_ASSUME_GS1] = true
		default:
			ws, class = writerByName("CODE_39"), "code39"
			content = fromAlphabet(rng, "ABCDEFGHIJ0123456789", 2+rng.Intn(8))
			hints[gozxing.DecodeHintType_ASSUME_GS1] = true
		}
		if rng.Bool() {
			hints[gozxing.DecodeHintType_TRY_HARDER] = true
		}
		bm, err := ws.New().Encode(content, ws.Format, 0, 30, nil)
		r.Evals(1)
		if err != nil {
			r.Tally("hints_" + class + "_writer_refused")
			continue
		}
		var rd gozxing.Reader
		for _, od := range c09OneDs {
			if od.name == ws.Name {
				rd = od.reader()
			}
		}
		if rd == nil {
			return
		}
		up := c09Pose{Scale: 2 + rng.Intn(2), Rot: 0, PadL: 14, PadR: 14, PadT: 4, PadB: 4}
		down := up
		down.Rot = 180
		full := bitMatrixToBools(bm)
		info := map[string]interface{}{"symbology": ws.Name, "content": content, "class": class, "scale": up.Scale}
		bmpU, _ := gozxing.NewBinaryBitmapFromImage(c09Render(full, up))
		resU, errU := rd.Decode(bmpU, hints)
		if errU != nil {
			r.Tally("hints_" + class + "_upright_not_read")
			continue
		}
		bmpD, _ := gozxing.NewBinaryBitmapFromImage(c09Render(full, down))
		resD, errD := rd.Decode(bmpD, hints)
		r.Evals(2)
		if errD != nil {
			r.Violation("orientation", ws.Name+":rot180-with-hints-not-read", fmt.Sprintf("%s %q is read upright under hints (%s) as %q but the same image turned upside down is refused: %v", ws.Name, content, class, resU.GetText(), errD), info)
			return
		}
		if resD.GetText() != resU.GetText() {
			r.Violation("misread", ws.Name+":rot180-with-hints-other-text", fmt.Sprintf("%s %q under hints (%s): upright read %q, upside down read %q", ws.Name, content, class, resU.GetText(), resD.GetText()), info)
			return
		}
		if v, isInt := resD.GetResultMetadata()[gozxing.ResultMetadataType_ORIENTATION].(int); !isInt || v != 180 {
			r.Violation("orientation", ws.Name+":rot180-orientation-metadata", fmt.Sprintf("%s %q upside down under hints: ORIENTATION %v", ws.Name, content, resD.GetResultMetadata()[gozxing.ResultMetadataType_ORIENTATION]), info)
			return
		}
		r.Tally("hints_" + class + "_rot180_equals_upright")
		r.Tally("oned_rot180_with_hints_equal")
		if i%8 == 0 {
			r.Nontrivial("hints|" + class + "|" + content)
		}
	}
}
