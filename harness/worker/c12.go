//go:build verif

package main

import (
	"fmt"
	"runtime"
	"sort"
	"strings"

	"github.com/makiuchi-d/gozxing"
	dmenc "github.com/makiuchi-d/gozxing/datamatrix/encoder"
	qrdec "github.com/makiuchi-d/gozxing/qrcode/decoder"

	"verifharness/fw"
	"verifharness/ref/onedref"
)

// C12: encoding is total.

func init() { fw.Register("C12", c12) }

var allFormats = []gozxing.BarcodeFormat{
	gozxing.BarcodeFormat_AZTEC, gozxing.BarcodeFormat_CODABAR, gozxing.BarcodeFormat_CODE_39, gozxing.BarcodeFormat_CODE_93,
	gozxing.BarcodeFormat_CODE_128, gozxing.BarcodeFormat_DATA_MATRIX, gozxing.BarcodeFormat_EAN_8, gozxing.BarcodeFormat_EAN_13,
	gozxing.BarcodeFormat_ITF, gozxing.BarcodeFormat_MAXICODE, gozxing.BarcodeFormat_PDF_417, gozxing.BarcodeFormat_QR_CODE,
	gozxing.BarcodeFormat_RSS_14, gozxing.BarcodeFormat_RSS_EXPANDED, gozxing.BarcodeFormat_UPC_A, gozxing.BarcodeFormat_UPC_E,
	gozxing.BarcodeFormat_UPC_EAN_EXTENSION,
}

func c12Content(rng *fw.Rand, ws *writerSpec) string {
	switch rng.Intn(17) {
	case 16: // digit strings of the UPC/EAN lengths with ANY first digit, the last one often the mod-10
		// check of the rest (for 8 digits also the check of the UPC-E expansion under that first digit)
		n := []int{7, 8, 8, 11, 12, 13, 6, 14}[rng.Intn(8)]
		d := digitsN(rng, n)
		if rng.Bool() {
			body := d[:n-1]
			if n == 8 && rng.Bool() {
				if exp := onedref.UPCEExpand(d[1:7], d[0]); exp != "" {
					body = exp
				}
			}
			d = d[:n-1] + fmt.Sprint(onedref.Mod10(body))
		}
		return d
	case 15: // text of one letter case / digits with one or two characters from the edges of the
		// code ranges (controls, DEL, 0x80, 0x9F, 0xA0, 0xFF) placed inside, as Latin-1 text
		alpha := []string{"abcdefghijklmnopqrstuvwxyz ", "ABCDEFGHIJKLMNOPQRSTUVWXYZ ", "0123456789", "ABC*>\r 123"}[rng.Intn(4)]
		edges := []rune{0x00, 0x1B, 0x1F, 0x20, 0x7E, 0x7F, 0x80, 0x9F, 0xA0, 0xFE, 0xFF}
		rs := make([]rune, 3+rng.Intn(30))
		for i := range rs {
			rs[i] = rune(alpha[rng.Intn(len(alpha))])
		}
		for k := 1 + rng.Intn(2); k > 0; k-- {
			rs[rng.Intn(len(rs))] = edges[rng.Intn(len(edges))]
		}
		return string(rs)
	case 14: // decimal digits outside ASCII, alone and mixed with ASCII digits (even byte lengths included)
		alt := []string{"\u0661", "\u0662", "\uff11", "\uff19", "\u0967"}
		var sb strings.Builder
		for i, n := 0, 1+rng.Intn(12); i < n; i++ {
			if rng.Bool() {
				sb.WriteString(alt[rng.Intn(len(alt))])
			} else {
				sb.WriteByte(byte('0' + rng.Intn(10)))
			}
		}
		return sb.String()
	case 0:
		return ""
	case 1:
		return string([]byte{byte(rng.Intn(256))})
	case 2: // invalid UTF-8
		return string(rng.Bytes(1 + rng.Intn(20)))
	case 3: // non-Latin text
		return []string{"日本語テキスト", "Привет мир", "ελληνικά", "한국어", "\U0001F600\U0001F601", "a\u0000b", "\ufeffbom"}[rng.Intn(7)]
	case 4: // long digit strings
		return digitsN(rng, 1+rng.Intn(4000))
	case 5: // class-run strings that stress the Data Matrix mode loop
		n := 60
		if rng.Intn(5) == 0 {
			n = 1500
		}
		return dmRandomText(rng, n)
	case 6: // valid content for this writer
		return ws.Gen(rng, false)
	case 7: // valid content with one byte replaced
		s := []byte(ws.Gen(rng, false))
		if len(s) > 0 {
			s[rng.Intn(len(s))] = byte(rng.Intn(256))
		}
		return string(s)
	case 8: // valid content at the writer's length limits +-1
		s := ws.Gen(rng, false)
		switch rng.Intn(3) {
		case 0:
			if len(s) > 0 {
				return s[:len(s)-1]
			}
		case 1:
			return s + s[len(s)-1:]
		}
		return s + "0"
	case 9: // 80 / 81 characters (limit of several 1-D writers)
		n := 79 + rng.Intn(3)
		if rng.Bool() {
			return digitsN(rng, n)
		}
		return fromAlphabet(rng, code39Alphabet, n)
	case 10: // arbitrary bytes, long
		return string(rng.Bytes(rng.Intn(4001)))
	case 11: // control characters and DEL
		b := make([]byte, 1+rng.Intn(30))
		for i := range b {
			b[i] = byte(rng.Intn(33))
			if rng.Intn(8) == 0 {
				b[i] = 0x7F
			}
		}
		return string(b)
	case 12: // Code 128 escape characters and GS1 style contents
		return fromAlphabet(rng, "ñòóô(01)12345", 1+rng.Intn(20))
	}
	return fromAlphabet(rng, "ABCDabcd0123 $%*+-./:", 1+rng.Intn(100))
}

func c12Hints(rng *fw.Rand) (map[gozxing.EncodeHintType]interface{}, string) {
	h := map[gozxing.EncodeHintType]interface{}{}
	if rng.Intn(3) == 0 {
		return nil, "nil"
	}
	var desc []string
	add := func(k gozxing.EncodeHintType, name string, v interface{}) {
		h[k] = v
		desc = append(desc, fmt.Sprintf("%s=%#v", name, v))
	}
	if rng.Intn(3) == 0 {
		switch rng.Intn(3) {
		case 0:
			add(gozxing.EncodeHintType_ERROR_CORRECTION, "ERROR_CORRECTION", qrdec.ErrorCorrectionLevel(rng.Intn(9)-1))
		case 1:
			add(gozxing.EncodeHintType_ERROR_CORRECTION, "ERROR_CORRECTION", []string{"L", "M", "Q", "H", "X", "", "l"}[rng.Intn(7)])
		default:
			add(gozxing.EncodeHintType_ERROR_CORRECTION, "ERROR_CORRECTION", []qrdec.ErrorCorrectionLevel{qrdec.ErrorCorrectionLevel_L, qrdec.ErrorCorrectionLevel_M, qrdec.ErrorCorrectionLevel_Q, qrdec.ErrorCorrectionLevel_H}[rng.Intn(4)])
		}
	}
	if rng.Intn(4) == 0 {
		add(gozxing.EncodeHintType_CHARACTER_SET, "CHARACTER_SET", []string{"UTF-8", "ISO-8859-1", "Shift_JIS", "SJIS", "GB2312", "Big5", "UTF-16BE", "TIS-620", "junk", "", "EUC-JP", "windows-1252", "ASCII",
			// names the IANA registry knows, with and without a codec in x/text, and aliases that are not in the ECI table
			"UTF-32", "UTF-7", "ISO-2022-KR", "ISO-2022-CN", "EBCDIC-US", "ISO-8859-11", "KOI8-R", "latin1", "csISOLatin1", "IBM037", "macintosh", "UTF-16LE", "utf8"}[rng.Intn(26)])
	}
	if rng.Intn(3) == 0 {
		switch rng.Intn(4) {
		case 0:
			add(gozxing.EncodeHintType_MARGIN, "MARGIN", rng.Intn(2001)-1000)
		case 1:
			add(gozxing.EncodeHintType_MARGIN, "MARGIN", rng.Intn(41)-20)
		case 2:
			add(gozxing.EncodeHintType_MARGIN, "MARGIN", fmt.Sprint(rng.Intn(41)-20))
		default:
			add(gozxing.EncodeHintType_MARGIN, "MARGIN", []string{"x", "", "1.5", " 3", "0x10"}[rng.Intn(5)])
		}
	}
	if rng.Intn(4) == 0 {
		if rng.Bool() {
			add(gozxing.EncodeHintType_QR_VERSION, "QR_VERSION", rng.Intn(43)-1)
		} else {
			add(gozxing.EncodeHintType_QR_VERSION, "QR_VERSION", []string{"1", "40", "41", "0", "-1", "x", ""}[rng.Intn(7)])
		}
	}
	if rng.Intn(4) == 0 {
		if rng.Bool() {
			add(gozxing.EncodeHintType_QR_MASK_PATTERN, "QR_MASK_PATTERN", rng.Intn(11)-1)
		} else {
			add(gozxing.EncodeHintType_QR_MASK_PATTERN, "QR_MASK_PATTERN", []string{"0", "7", "8", "-1", "x"}[rng.Intn(5)])
		}
	}
	if rng.Intn(6) == 0 {
		add(gozxing.EncodeHintType_GS1_FORMAT, "GS1_FORMAT", []interface{}{true, false, "true", "false", "x"}[rng.Intn(5)])
	}
	if rng.Intn(4) == 0 {
		add(gozxing.EncodeHintType_DATA_MATRIX_SHAPE, "DATA_MATRIX_SHAPE", dmenc.SymbolShapeHint(rng.Intn(6)))
	}
	dim := func() *gozxing.Dimension {
		if rng.Intn(6) == 0 {
			return nil
		}
		d, _ := gozxing.NewDimension(rng.Intn(160), rng.Intn(160))
		return d
	}
	if rng.Intn(5) == 0 {
		d := dim()
		h[gozxing.EncodeHintType_MIN_SIZE] = d
		desc = append(desc, fmt.Sprintf("MIN_SIZE=%v", d))
	}
	if rng.Intn(5) == 0 {
		d := dim()
		h[gozxing.EncodeHintType_MAX_SIZE] = d
		desc = append(desc, fmt.Sprintf("MAX_SIZE=%v", d))
	}
	if rng.Intn(5) == 0 {
		add(gozxing.EncodeHintType_FORCE_CODE_SET, "FORCE_CODE_SET", []string{"A", "B", "C", "D", "", "a"}[rng.Intn(6)])
	}
	sort.Strings(desc)
	return h, strings.Join(desc, " ")
}

func c12Dim(rng *fw.Rand) int {
	switch rng.Intn(13) {
	case 0:
		return -2147483648
	case 1:
		return -1
	case 2, 3:
		return 0
	case 4:
		return 1
	case 5:
		return 20000
	case 6:
		return 2 + rng.Intn(40)
	case 7: // multiples of the 32-bit word and of typical symbol sizes at 32 px per module
		return 32 * (1 + rng.Intn(30)) * []int{1, 1, 10, 12, 21}[rng.Intn(5)] / []int{1, 1, 10, 12, 21}[rng.Intn(5)]
	default:
		return rng.Intn(400)
	}
}

// natural module count: the same writer, same hints, at 0x0 with margin 0
func c12Natural(ws *writerSpec, content string, format gozxing.BarcodeFormat, hints map[gozxing.EncodeHintType]interface{}) (w, h int, ok bool) {
	h2 := map[gozxing.EncodeHintType]interface{}{}
	for k, v := range hints {
		h2[k] = v
	}
	h2[gozxing.EncodeHintType_MARGIN] = 0
	var bm *gozxing.BitMatrix
	var err error
	_, _, panicked := fw.Guard(func() {
		_, _, _ = dmGuard(8*len(content)+32, func() { bm, err = ws.New().Encode(content, format, 0, 0, h2) })
	})
	if panicked || err != nil || bm == nil {
		return 0, 0, false
	}
	return bm.GetWidth(), bm.GetHeight(), true
}

// c12Shared: when non-nil, the writer instance and the previous content of the current case
// (odd-numbered cases keep one instance for all their calls, and repeat the previous content
// under new hints and sizes one time in three).
var c12Shared gozxing.Writer
var c12Prev *string

func c12One(r *fw.Rec, ws *writerSpec) bool {
	rng := r.Rng
	content := c12Content(rng, ws)
	if c12Prev != nil {
		if *c12Prev != "" && rng.Intn(3) == 0 {
			content = *c12Prev
			r.Tally("same_content_again_on_the_same_instance")
		}
		*c12Prev = content
	}
	format := ws.Format
	if rng.Intn(3) == 0 {
		format = allFormats[rng.Intn(len(allFormats))]
	}
	hints, hdesc := c12Hints(rng)
	if ws.Name == "CODE_128" && rng.Intn(3) == 0 {
		// Code 128 specifics: digits / letters with FNC1..FNC4 escapes (U+00F1..U+00F4) at every
		// kind of position (odd and even digit offsets, first, last), under each forced code set
		n := 1 + rng.Intn(12)
		rs := make([]rune, 0, n+3)
		alpha := []string{"0123456789", "0123456789", "0123456789AB", "ab01", "\x00\x01\x1d\x1e\x1f !~\x7fA", "01234567890123456789a"}[rng.Intn(6)]
		for i := 0; i < n; i++ {
			rs = append(rs, rune(alpha[rng.Intn(len(alpha))]))
		}
		for k := rng.Intn(3); k >= 0; k-- {
			pos := rng.Intn(len(rs) + 1)
			esc := rune(0xF1 + rng.Intn(4))
			if rng.Intn(3) > 0 {
				esc = 0xF1
			}
			rs = append(rs[:pos], append([]rune{esc}, rs[pos:]...)...)
		}
		content = string(rs)
		if hints == nil {
			hints = map[gozxing.EncodeHintType]interface{}{}
		}
		// ... and under the automatic choice of code sets, whose look-ahead over digit runs meets the escapes
		if set := []string{"A", "B", "C", "C", "", "", ""}[rng.Intn(7)]; set != "" {
			hints[gozxing.EncodeHintType_FORCE_CODE_SET] = set
			hdesc += " FORCE_CODE_SET=" + set + " (code128 escape class)"
		} else {
			hdesc += " (code128 escape class, automatic code sets)"
			r.Tally("code128_escape_contents_automatic_code_sets")
		}
	}
	w, h := c12Dim(rng), c12Dim(rng)
	if w == 20000 && h == 20000 && rng.Intn(4) != 0 {
		h = 50
	}
	info := map[string]interface{}{"writer": ws.Name, "format": format.String(), "content_hex": fmt.Sprintf("%x", clipStr(content, 200)), "content_len": len(content), "width": w, "height": h, "hints": hdesc}
	hintsBefore := hintsSnapshot(hints)
	var bm *gozxing.BitMatrix
	var err error
	exceeded := false
	msg, stack, panicked := fw.Guard(func() {
		exceeded, _, _ = dmGuard(8*len(content)+32, func() {
			wr := c12Shared
			if wr == nil {
				wr = ws.New()
			}
			if hints == nil && len(content)%2 == 0 {
				bm, err = wr.EncodeWithoutHint(content, format, w, h)
				hdesc = "(EncodeWithoutHint)"
			} else {
				bm, err = wr.Encode(content, format, w, h, hints)
			}
		})
	})
	r.Evals(1)
	if hdesc == "(EncodeWithoutHint)" {
		r.Tally("calls_through_EncodeWithoutHint")
	}
	call := fmt.Sprintf("%s.Encode(%d bytes, %v, %dx%d, {%s})", ws.Name, len(content), format, w, h, hdesc)
	if panicked {
		r.Violation("panic", "encode:panic:"+fw.PanicSite(stack), fmt.Sprintf("%s panicked: %s", call, msg), info)
		return false
	}
	if exceeded {
		r.Violation("no-progress", "dm.encode:dispatch-loop-makes-no-progress", call+" exceeded the mode-dispatch step limit", info)
		return false
	}
	if (bm == nil) == (err == nil) {
		r.Violation("totality", "encode:result-xor-error:"+ws.Name, fmt.Sprintf("%s returned matrix=%v err=%v", call, bm != nil, err), info)
		return false
	}
	if hints != nil && hintsSnapshot(hints) != hintsBefore {
		r.Violation("model-mismatch", "encode:hint-map-changed-by-the-writer:"+ws.Name, fmt.Sprintf("%s changed the caller's hint map from %s to %v", call, hintsBefore, hints), info)
		return false
	}
	if err != nil {
		r.Tally("errors_" + ws.Name)
		if format != ws.Format {
			r.Tally("foreign_format_refused")
		}
		return true
	}
	r.Tally("matrices_" + ws.Name)
	if format != ws.Format {
		// UPC-A/EAN-13 style delegation is legitimate; record it
		r.Tally("foreign_format_accepted_" + ws.Name + "_" + format.String())
	}
	nw, nh, ok := c12Natural(ws, content, format, hints)
	if ok {
		if bm.GetWidth() < nw || bm.GetHeight() < nh {
			r.Violation("model-mismatch", "encode:matrix-smaller-than-symbol:"+ws.Name, fmt.Sprintf("%s returned %dx%d, smaller than the symbol's %dx%d modules", call, bm.GetWidth(), bm.GetHeight(), nw, nh), info)
			return false
		}
		r.Tally("natural_size_checked")
	} else {
		r.Tally("natural_size_unavailable")
	}
	if ws.Name != "DATA_MATRIX" {
		if bm.GetWidth() < maxInt(w, 1) || bm.GetHeight() < maxInt(h, 1) {
			r.Violation("model-mismatch", "encode:matrix-smaller-than-requested:"+ws.Name, fmt.Sprintf("%s returned %dx%d, smaller than requested", call, bm.GetWidth(), bm.GetHeight()), info)
			return false
		}
	}
	r.Nontrivial(ws.Name + "|" + content + "|" + hdesc + fmt.Sprintf("|%d|%d|%v", w, h, format))
	return true
}

// c12Huge: requested sizes beyond 2^31 pixels (legal ints; the matrix takes 256 MiB).
func c12Huge(r *fw.Rec, ws *writerSpec) {
	content := ws.Gen(r.Rng, true)
	for _, d := range [][2]int{{2097152, 1025}, {1025, 2097152}, {46341, 46342}} {
		w, h := d[0], d[1]
		var bm *gozxing.BitMatrix
		var err error
		msg, stack, panicked := fw.Guard(func() { bm, err = ws.New().Encode(content, ws.Format, w, h, nil) })
		r.Evals(1)
		call := fmt.Sprintf("%s.Encode(%q, %dx%d)", ws.Name, content, w, h)
		info := map[string]interface{}{"writer": ws.Name, "content": content, "width": w, "height": h}
		if panicked {
			r.Violation("panic", "encode:panic:"+fw.PanicSite(stack), fmt.Sprintf("%s panicked: %s", call, msg), info)
			return
		}
		if (bm == nil) == (err == nil) {
			r.Violation("totality", "encode:result-xor-error:"+ws.Name, fmt.Sprintf("%s returned matrix=%v err=%v", call, bm != nil, err), info)
			return
		}
		if err == nil {
			if ws.Name != "DATA_MATRIX" && (bm.GetWidth() < w || bm.GetHeight() < h) {
				r.Violation("model-mismatch", "encode:matrix-smaller-than-requested:"+ws.Name, fmt.Sprintf("%s returned %dx%d, smaller than requested", call, bm.GetWidth(), bm.GetHeight()), info)
				return
			}
			r.Tally("matrices_beyond_2^31_pixels")
		} else {
			r.Tally("errors_beyond_2^31_pixels")
		}
		bm = nil
		runtime.GC()
	}
	r.Nontrivial("huge|" + ws.Name)
}

func clipStr(s string, n int) string {
	if len(s) > n {
		return s[:n]
	}
	return s
}

func c12(c *fw.Ctx) {
	c.Rule("all 11 writers x seeded random (content class, format from all 17 values, width/height from {-2^31, -1, 0, 1, small, 0..400, 20000} (plus, per writer, three requests beyond 2^31 pixels), hint-less calls half through EncodeWithoutHint, hint maps over the ten accepted hint keys with in- and out-of-range values of the accepted types); every second case keeps ONE writer instance for its 12 calls and repeats the previous content under new hints and sizes one time in three; every writer also as the FIRST use of the library in a fresh process (3 child processes each); per call: recover() for panics, dispatch-step hook for the Data Matrix mode loop, CPU/heap budget, exactly one of matrix/error, matrix >= the symbol's module count (same writer and hints at 0x0, margin 0) and, for QR/1-D, >= max(requested, 1); distinct = distinct (writer, content, format, size, hints) that returned a matrix")
	c.Assume("hint values are of the types documented in encode_hint_type.go (FORCE_CODE_SET: string; MIN/MAX_SIZE: *Dimension incl. nil; ERROR_CORRECTION: ErrorCorrectionLevel or string; MARGIN/QR_VERSION/QR_MASK_PATTERN: int or string; GS1_FORMAT: bool or string)")
	n := c.Pick(450, 25000)
	for wi := range allWriters {
		ws := &allWriters[wi]
		for i := 0; i < n; i++ {
			i := i
			c.Run(fmt.Sprintf("%s/%d", ws.Name, i), func(r *fw.Rec) {
				c12Shared, c12Prev = nil, nil
				if i%2 == 1 {
					prev := ""
					c12Shared, c12Prev = ws.New(), &prev
				}
				defer func() { c12Shared, c12Prev = nil, nil }()
				for rep := 0; rep < 12; rep++ {
					if !c12One(r, ws) {
						return
					}
				}
				if i == 0 {
					r.Sample(map[string]interface{}{"writer": ws.Name, "calls_per_case": 12})
				}
			})
		}
		c.Floor("matrices_"+ws.Name, 60)
		c.Floor("errors_"+ws.Name, 60)
		c.Run("huge/"+ws.Name, func(r *fw.Rec) { c12Huge(r, ws) })
		wiCold := wi
		c.Run("cold/"+ws.Name, func(r *fw.Rec) { c12Cold(r, wiCold) })
	}
	c.Floor("calls_through_EncodeWithoutHint", 500)
	c.Floor("cold_start_encodes", 33)
	c.Floor("same_content_again_on_the_same_instance", 1000)
	c.Floor("code128_escape_contents_automatic_code_sets", 300)
	// every writer x every format value, valid content
	c.Run("formats", func(r *fw.Rec) {
		for wi := range allWriters {
			ws := &allWriters[wi]
			for _, f := range allFormats {
				content := ws.Gen(r.Rng, true)
				var bm *gozxing.BitMatrix
				var err error
				msg, stack, panicked := fw.Guard(func() { bm, err = ws.New().Encode(content, f, 0, 0, nil) })
				r.Evals(1)
				if panicked {
					r.Violation("panic", "encode:panic:"+fw.PanicSite(stack), fmt.Sprintf("%s.Encode(%q, %v) panicked: %s", ws.Name, content, f, msg), nil)
					return
				}
				if (bm == nil) == (err == nil) {
					r.Violation("totality", "encode:result-xor-error:"+ws.Name, fmt.Sprintf("%s.Encode(%q, %v): matrix=%v err=%v", ws.Name, content, f, bm != nil, err), nil)
					return
				}
				if f == ws.Format && err != nil {
					r.Violation("model-mismatch", "encode:own-format-refused:"+ws.Name, fmt.Sprintf("%s.Encode(%q, %v) failed: %v", ws.Name, content, f, err), nil)
					return
				}
				r.Tally("writer_format_pairs")
			}
		}
		r.Nontrivial("formats")
	})
	c.Exhaustive("11 writers x 17 BarcodeFormat values (valid content)")
	c.Floor("writer_format_pairs", 187)
	c.Floor("natural_size_checked", 1000)
}

// ---- cold starts: a writer as the first thing a fresh process does with the library

func init() {
	fw.RegisterCold("c12first", func(arg string) (out string) {
		defer func() {
			if p := recover(); p != nil {
				out = fmt.Sprintf("PANIC %v", p)
			}
		}()
		var wi int
		var seed uint64
		fmt.Sscanf(arg, "%d %d", &wi, &seed)
		ws := &allWriters[wi]
		rng := fw.NewRand(seed)
		for i := 0; i < 4; i++ {
			content := ws.Gen(rng, false)
			bm, err := ws.New().Encode(content, ws.Format, 0, 0, nil)
			if (bm == nil) == (err == nil) {
				return fmt.Sprintf("Encode(%q) returned matrix=%v err=%v", content, bm != nil, err)
			}
			if err != nil {
				return fmt.Sprintf("Encode(%q) of a valid content failed: %v", content, err)
			}
		}
		return "OK"
	})
}

// c12Cold: every writer encodes valid contents as the first use of the library in a process
// (no reader, no other writer has run: whatever is built lazily is still unbuilt).
func c12Cold(r *fw.Rec, wi int) {
	ws := &allWriters[wi]
	for k := 0; k < 3; k++ {
		seed := r.Rng.Uint64() >> 1
		out, err := fw.RunCold("c12first", fmt.Sprintf("%d %d", wi, seed))
		r.Evals(1)
		if err != nil || out != "OK" {
			r.Violation("panic", "encode:cold-start:"+ws.Name, fmt.Sprintf("%s writer as the first use of the library in a fresh process: %s %v", ws.Name, out, err), map[string]interface{}{"writer": ws.Name, "seed": seed})
			return
		}
		r.Tally("cold_start_encodes")
	}
	r.Nontrivial("cold/" + ws.Name)
}
